#!/usr/bin/env python3
"""maintenance: automatic first-order mutants of the library (operator / constant / statement-deletion), each run on a scratch copy of
/repo against the quick checks of the properties its file is anchored in.  Survivors are listed for manual triage (equivalent mutant /
outside every property / blind spot).  usage: automut.py <count> <seed> <outfile> [file-filter]"""
import os, random, re, shutil, subprocess, sys, tempfile
ROOT = os.path.dirname(os.path.abspath(__file__))
REPO = "/repo"
FILEPROPS = {
    "brilliantrussian.c": ["C01", "C02", "C05", "C09"], "strassen.c": ["C01", "C09"], "mzd.c": ["C08", "C17", "C13", "C01", "C09", "C10"],
    "mzd.h": ["C13", "C08", "C09", "C01"], "mzp.c": ["C13", "C03"], "ple.c": ["C03", "C06"], "ple_russian.c": ["C03", "C10"], "ple_russian_template.h": ["C03"],
    "triangular.c": ["C04", "C05"], "triangular_russian.c": ["C04", "C05", "C09"], "solve.c": ["C06", "C07"], "echelonform.c": ["C02"],
    "xor.h": ["C01", "C11"], "xor_template.h": ["C01", "C02", "C11"], "mmc.c": ["C14", "C10"], "io.c": ["C18"], "graycode.c": ["C19", "C01"],
    "parity.h": ["C19", "C01"], "misc.h": ["C19", "C13"], "djb.c": ["C01", "C20"], "mp.c": ["C16"],
}
WEIGHT = {"mzd.c": 5, "mzd.h": 4, "brilliantrussian.c": 4, "ple_russian.c": 3, "mzp.c": 3, "strassen.c": 3, "triangular.c": 3, "triangular_russian.c": 3}
OPS = [
    (r"<=", "<"), (r"(?<![<>=!-])<(?![<=])", "<="), (r">=", ">"), (r"(?<![<>=!-])>(?![>=])", ">="), (r"==", "!="), (r"!=", "=="),
    (r"\+ 1\b", "- 1"), (r"- 1\b", "+ 1"), (r"\+ 1\b", ""), (r"- 1\b", ""), (r"(?<![+\w]) \+ (?!\+)", " - "), (r"(?<![-\w>]) - (?![->])", " + "),
    (r"\^=", "|="), (r"\|=", "^="), (r"&=", "|="), (r" & ", " | "), (r" \| ", " & "), (r"&&", "||"), (r"\|\|", "&&"),
    (r"~", ""), (r"\b0\b", "1"), (r"\b1\b", "0"), (r"\b1\b", "2"), (r"m4ri_radix\b", "(m4ri_radix - 1)"), (r"<<", ">>"), (r">>", "<<"),
    (r"\+\+", "--"), (r" \* ", " + "), (r" / ", " * "), (r" % ", " / "), (r"\bMIN\(", "MAX("), (r"\bMAX\(", "MIN("), ("DELETE", ""),
]
def eligible(line):
    t = line.strip()
    if not t or t.startswith(("#", "//", "*", "/*", "assert", "m4ri_die", "__M4RI_DD", "printf", "fprintf", "case ", "default", "}", "{", "return;", "break;", "else")):
        return False
    if "m4ri_die" in t or "assert(" in t or "printf" in t:
        return False
    return True
def in_comment_map(lines):
    inc = False; m = []
    for l in lines:
        m.append(inc or l.strip().startswith(("/*", "*", "//")))
        if "/*" in l and "*/" not in l: inc = True
        if "*/" in l: inc = False
    return m
def run_one(f, li, new, outf, opname):
    """apply `new` as line li (0-based) of file f on a scratch copy, run the quick checks of the file's properties"""
    src = open(os.path.join(REPO, "m4ri", f)).read().split("\n")
    line = src[li]
    d = tempfile.mkdtemp(prefix="am.", dir="/tmp")
    try:
        shutil.copytree(os.path.join(REPO, "m4ri"), os.path.join(d, "m4ri"), ignore=shutil.ignore_patterns("*.o", "*.lo", ".libs", ".deps"))
        src2 = list(src); src2[li] = new
        open(os.path.join(d, "m4ri", f), "w").write("\n".join(src2))
        verdict = "survived"; by = "-"; detail = ""
        for p in FILEPROPS[f]:
            env = dict(os.environ, VERIF_REPO=d, VERIF_EVIDENCE_DIR=os.path.join(d, "ev"))
            r = subprocess.run([sys.executable, os.path.join(ROOT, "verif.py"), "check", p, "--tier", "quick"], env=env, stdout=subprocess.PIPE, stderr=subprocess.STDOUT, text=True)
            if r.returncode == 1:
                verdict = "killed"; by = p
                ks = [x.strip() for x in r.stdout.splitlines() if x.strip().startswith("key=")]
                detail = ks[0][:110] if ks else ""
                break
            if r.returncode != 0:
                verdict = "inconclusive"; by = p; detail = r.stdout.strip().splitlines()[-1][:150] if r.stdout.strip() else ""
                break
        outf.write("%s\t%s\t%s:%d\t%s -> %s\t%s\t%s\n" % (verdict, by, f, li + 1, line.strip()[:90], new.strip()[:90], opname, detail))
        outf.flush()
    finally:
        shutil.rmtree(d, ignore_errors=True)

def replay(infile, out):
    """re-run the non-killed mutants recorded in an earlier result file against the current checks"""
    outf = open(out, "a")
    for l in open(infile):
        parts = l.rstrip("\n").split("\t")
        if len(parts) < 5 or parts[0] == "killed":
            continue
        f, ln = parts[2].rsplit(":", 1)
        li = int(ln) - 1
        old, new = parts[3].split(" -> ", 1)
        src = open(os.path.join(REPO, "m4ri", f)).read().split("\n")
        if src[li].strip()[:90] != old:
            outf.write("skipped\t-\t%s\tline changed\n" % parts[2]); continue
        indent = src[li][:len(src[li]) - len(src[li].lstrip())]
        if len(src[li].strip()) > 90:
            outf.write("skipped\t-\t%s\tline truncated in the record\n" % parts[2]); continue
        run_one(f, li, indent + new, outf, parts[4])
    outf.write("DONE replay\n")

LINES = tuple(int(x) for x in os.environ["AUTOMUT_LINES"].split("-")) if os.environ.get("AUTOMUT_LINES") else None

def main():
    if sys.argv[1] == "replay":
        return replay(sys.argv[2], sys.argv[3])
    n, seed, out = int(sys.argv[1]), int(sys.argv[2]), sys.argv[3]
    filt = sys.argv[4] if len(sys.argv) > 4 else None
    rnd = random.Random(seed)
    files = [f for f in FILEPROPS if not filt or filt in f]
    pool = [f for f in files for _ in range(WEIGHT.get(f, 1))]
    done = 0; tried = 0
    outf = open(out, "a")
    while done < n and tried < 2000 * n:
        tried += 1
        f = rnd.choice(pool)
        src = open(os.path.join(REPO, "m4ri", f)).read().split("\n")
        cm = in_comment_map(src)
        li = rnd.randrange(len(src))
        if LINES and not (LINES[0] <= li + 1 <= LINES[1]):
            continue
        if cm[li] or not eligible(src[li]):
            continue
        op = rnd.choice(OPS)
        line = src[li]
        if op[0] == "DELETE":
            t = line.strip()
            if not t.endswith(";") or t.startswith(("return", "goto", "break", "continue")) or re.match(r"^(const |static |word |wi_t |rci_t |int |mzd_t |mzp_t |size_t |unsigned |long |char |double |__m128i |ple_table_t |djb_t |FILE |png_)", t):
                continue
            new = line[:len(line) - len(line.lstrip())] + ";"
        else:
            ms = list(re.finditer(op[0], line.split("//")[0]))
            if not ms:
                continue
            m = rnd.choice(ms)
            new = line[:m.start()] + op[1] + line[m.end():]
        if new == line:
            continue
        d = tempfile.mkdtemp(prefix="am.", dir="/tmp")
        try:
            shutil.copytree(os.path.join(REPO, "m4ri"), os.path.join(d, "m4ri"), ignore=shutil.ignore_patterns("*.o", "*.lo", ".libs", ".deps"))
            src2 = list(src); src2[li] = new
            open(os.path.join(d, "m4ri", f), "w").write("\n".join(src2))
            # must compile (all translation units, warnings as in a normal build)
            cs = [x for x in os.listdir(os.path.join(d, "m4ri")) if x.endswith(".c")]
            r = subprocess.run(["gcc", "-fsyntax-only", "-w", "-std=gnu99", "-msse2", "-I", "/repo", "-I", os.path.join(d, "m4ri"), "-DHAVE_CONFIG_H"] + [os.path.join(d, "m4ri", x) for x in cs],
                               stdout=subprocess.PIPE, stderr=subprocess.STDOUT, text=True)
            if r.returncode != 0:
                continue
            done += 1
            verdict = "survived"; by = "-"; detail = ""
            for p in FILEPROPS[f]:
                env = dict(os.environ, VERIF_REPO=d, VERIF_EVIDENCE_DIR=os.path.join(d, "ev"))
                r = subprocess.run([sys.executable, os.path.join(ROOT, "verif.py"), "check", p, "--tier", "quick"], env=env, stdout=subprocess.PIPE, stderr=subprocess.STDOUT, text=True)
                if r.returncode == 1:
                    verdict = "killed"; by = p
                    ks = [x.strip() for x in r.stdout.splitlines() if x.strip().startswith("key=")]
                    detail = ks[0][:110] if ks else ""
                    break
                if r.returncode != 0:
                    verdict = "inconclusive"; by = p; detail = r.stdout.strip().splitlines()[-1][:150] if r.stdout.strip() else ""
                    break
            outf.write("%s\t%s\t%s:%d\t%s -> %s\t%s\t%s\n" % (verdict, by, f, li + 1, line.strip()[:90], new.strip()[:90], op[0], detail))
            outf.flush()
        finally:
            shutil.rmtree(d, ignore_errors=True)
    outf.write("DONE %d\n" % done)
main()
