#!/bin/bash
# maintenance: run registered checks against a seeded change applied to /repo, then undo it.  usage: seed_run.sh <seed-id> <prop> [<prop>...]
ID="$1"; shift
P=/verif/seeded/$ID/patch.diff
cd /repo || exit 2
git diff --quiet || { echo "/repo not clean"; exit 2; }
trap "git -C /repo checkout -- ." EXIT
git apply "$P" || { echo "patch does not apply"; exit 2; }
for p in "$@"; do
  echo "--- $ID vs $p (${TIER:-quick})"
  (cd /verif && VERIF_EVIDENCE_DIR=/verif/build/seed-evidence python3 verif.py check "$p" --tier "${TIER:-quick}" 2>&1 | grep -E "^VIOLATION|key=|^C[0-9]+ |INCONCL|HARNESS" | cut -c1-180 | head -${LINES_MAX:-7})
done
git -C /repo checkout -- . ; trap - EXIT
git -C /repo diff --quiet && echo "(repo restored)"
