#!/bin/bash
# maintenance: automatic mutants for the files the weighted random choice rarely picks
cd /verif
for spec in "mmc.c 15" "solve.c 20" "mp.c 15" "io.c 20" "echelonform.c 12" "mzd.h 30" "misc.h 12" "graycode.c 8" "parity.h 8" "djb.c 10"; do
  set -- $spec
  nice -n 5 python3 automut.py $2 31 build/sweeps/automut3.txt $1
done
echo ALLDONE >> build/sweeps/automut3.txt
