#!/bin/bash
# maintenance: run every quick check at several VERIF_SEED values on the unchanged tree (evidence redirected), report anything that is not a clean exit 0
OUT=${1:-/verif/build/sweeps/soak.txt}; shift
SEEDS=${@:-2 3 4}
: > "$OUT"
for s in $SEEDS; do
  for p in C01 C02 C03 C04 C05 C06 C07 C08 C09 C10 C11 C12 C13 C14 C15 C16 C17 C18 C19 C20; do
    r=$(VERIF_SEED=$s VERIF_EVIDENCE_DIR=/verif/build/soak-ev python3 /verif/verif.py check $p --tier quick 2>&1); rc=$?
    echo "seed=$s $p rc=$rc $(echo "$r" | tail -1)" >> "$OUT"
    if [ $rc -ne 0 ]; then echo "$r" | tail -15 >> "$OUT"; fi
  done
done
echo DONE >> "$OUT"
