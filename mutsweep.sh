#!/bin/bash
# maintenance: run every kept seeded change and calibration mutant against the quick check(s) of the property it breaks,
# at a given VERIF_SEED, each on a scratch copy of /repo (never /repo itself).  usage: mutsweep.sh <seed> <outfile> [tier]
SEED="$1"; OUT="$2"; export TIER="${3:-quick}"
: > "$OUT"
for d in /verif/seeded/S*/; do
  k=$(basename "$d")
  props=$(python3 -c "import json;m=json.load(open('$d/meta.json'));print(' '.join(m['caught_by_quick_checks'][:1] or [m['breaks_property']]))")
  r=$(VERIF_SEED=$SEED LINES_MAX=40 nice -n 5 /verif/mutate.sh "$d/patch.diff" $props 2>&1)
  if echo "$r" | grep -q "^VIOLATION"; then echo "$k $props caught" >> "$OUT"; else echo "$k $props MISSED :: $(echo "$r" | tail -1)" >> "$OUT"; fi
done
for f in /verif/mutants/*.diff; do
  k=$(basename "$f")
  props=$(head -1 "$f" | sed 's/# expect://' | awk '{print $1}')
  r=$(VERIF_SEED=$SEED LINES_MAX=40 nice -n 5 /verif/mutate.sh "$f" $props 2>&1)
  if echo "$r" | grep -q "^VIOLATION"; then echo "$k $props caught" >> "$OUT"; else echo "$k $props MISSED :: $(echo "$r" | tail -1)" >> "$OUT"; fi
done
echo DONE >> "$OUT"
