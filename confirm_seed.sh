#!/bin/bash
# maintenance: confirm a sub-agent's change in its scratch worktree: demo FAILS with the change, PASSES without, make check passes with it.
# usage: confirm_seed.sh <worktree> ; prints a summary line
WT="$1"
cd "$WT" || exit 2
[ -f patch.diff ] || { echo "no patch.diff"; exit 2; }
build_demo() {
  if [ -f demo.sh ]; then return 0; fi
  gcc -O1 -g -I"$WT" -DHAVE_CONFIG_H demo.c "$WT"/.libs/libm4ri.a -lm -lpng -lpthread -o demo >/dev/null 2>&1
}
run_demo() {
  if [ -f demo.sh ]; then timeout 900 sh demo.sh >demo.out 2>&1; else timeout 900 ./demo >demo.out 2>&1; fi
  echo $?
}
make -j8 >/dev/null 2>&1 || { echo "BUILD-FAILED with change"; exit 1; }
build_demo
RC_CHANGED=$(run_demo)
CHK=$(make check -j8 2>&1 | grep -E "^# (PASS|FAIL|ERROR):" | tr -d '\n')
# original
git diff -- m4ri > .confirm.patch
git apply -R .confirm.patch || { echo "cannot revert"; exit 2; }
make -j8 >/dev/null 2>&1
build_demo
RC_ORIG=$(run_demo)
git apply .confirm.patch
make -j8 >/dev/null 2>&1
echo "$(basename $WT): demo changed rc=$RC_CHANGED original rc=$RC_ORIG ; make check with change: $CHK"
