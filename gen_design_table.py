#!/usr/bin/env python3
"""maintenance: regenerate the 'which checks catch which changes' table in DESIGN.md from seeded/*/meta.json and mutants/"""
import json, glob, os, re
rows = ["| change | breaks | what it needs in order to manifest | caught by (quick tier) | first missed by -> strengthening |", "|---|---|---|---|---|"]
notes = json.load(open("/verif/seeded/strengthening_notes.json")) if os.path.exists("/verif/seeded/strengthening_notes.json") else {}
for d in sorted(glob.glob("/verif/seeded/S*")):
    m = json.load(open(d + "/meta.json"))
    k = os.path.basename(d)
    rows.append("| `seeded/%s` | %s | %s | %s | %s |" % (k, m["breaks_property"], m["needs_to_manifest"], ", ".join(m["caught_by_quick_checks"]), notes.get(k, "-")))
for f in sorted(glob.glob("/verif/mutants/*.diff")):
    exp = open(f).readline().replace("# expect:", "").strip()
    rows.append("| `mutants/%s` | %s | hand-written calibration mutant | %s | - |" % (os.path.basename(f), exp.split()[0], exp))
rows.append("| `mutants/reverts/revert_<commit>.diff` (%d) | as 5.1 | the reverse of each `fix:` commit | each is caught by the check that found the defect (re-verified) | - |" % len(glob.glob("/verif/mutants/reverts/*.diff")))
tab = "\n".join(rows)
p = "/verif/DESIGN.md"
s = open(p).read()
if "SEEDED_TABLE_PLACEHOLDER" in s:
    s = s.replace("SEEDED_TABLE_PLACEHOLDER", "<!-- SEEDED-TABLE-BEGIN -->\n" + tab + "\n<!-- SEEDED-TABLE-END -->")
else:
    s = re.sub(r"<!-- SEEDED-TABLE-BEGIN -->.*?<!-- SEEDED-TABLE-END -->", lambda m: "<!-- SEEDED-TABLE-BEGIN -->\n" + tab + "\n<!-- SEEDED-TABLE-END -->", s, flags=re.S)
open(p, "w").write(s)
print(len(rows) - 2, "rows")
