"""Per-property stage definitions: which monitor runs in which build, how many cases per tier.
quick/thorough = (number of cases, maxdim)."""

def S(cfg, monitor, args, quick, thorough, **kw):
    d = dict(cfg=cfg, monitor=monitor, args=list(args), quick=quick, thorough=thorough)
    d.update(kw)
    return d

MODEL = ["independent byte-per-entry GF(2) reference model (harness/ref.c) and raw-layout conversion (harness/hx.c) are correct",
         "judge and sharding in verif.py"]

PROPS = {}

PROPS["C01"] = dict(
    level="exploration",
    rule="case = (route, m,l,n, bit patterns of A,B,C0, cutoff/k/clear, destination NULL or dirty) drawn from edge-biased and cutoff-derived "
         "shape generators; product compared entry-wise with the schoolbook model; distinct = distinct (build, route, regime, strassen depth, "
         "strip set, size/mod-64 class of m,l,n, patterns); non-trivial = product != 0 and min(m,l,n) > 1",
    assumptions=MODEL,
    stages=[
        S("small-asan", "func", ["--fam", "mul"], (3000, 420), (60000, 1400)),
        S("host-asan", "func", ["--fam", "mul"], (1200, 500), (30000, 2100)),
        S("small-nosse-ts-asan", "func", ["--fam", "mul"], (800, 300), (20000, 1000)),
        S("small-gomp-asan", "func", ["--fam", "mul"], (600, 400), (20000, 1300), env={"OMP_NUM_THREADS": "3"}),
    ],
    require_tags={"quick": ["strassen_depth=2", "cubic", "m4rm", "squaring"], "thorough": ["strassen_depth=3", "cubic", "m4rm", "squaring"]},
)
