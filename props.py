"""Per-property stage definitions: which monitor runs in which build, how many cases per tier.
quick/thorough = (number of cases, maxdim)."""

def S(cfg, monitor, args, quick, thorough, **kw):
    d = dict(cfg=cfg, monitor=monitor, args=list(args), quick=quick, thorough=thorough)
    d.update(kw)
    if "omp" in cfg:
        # several worker processes x several OpenMP threads share 16 cores: threads that spin at barriers (libgomp / libomp default)
        # make oversubscribed stages 10-100x slower; a passive wait policy changes nothing about what is computed
        env = dict(d.get("env") or {})
        env.setdefault("OMP_WAIT_POLICY", "passive")
        env.setdefault("GOMP_SPINCOUNT", "0")
        env.setdefault("KMP_BLOCKTIME", "0")
        d["env"] = env
    return d

MODEL = ["independent byte-per-entry GF(2) reference model (harness/ref.c) and raw-layout conversion (harness/hx.c) are correct",
         "judge and sharding in verif.py"]

PROPS = {}
HOOK_COMMITS = ["52a5a65", "53e2fd0", "08e4ceb"]
NOT_APPLICABLE = []

PROPS["C01"] = dict(
    level="exploration",
    rule="case = (route, m,l,n, bit patterns of A,B,C0, cutoff/k/clear, destination NULL or dirty) drawn from edge-biased and cutoff-derived "
         "shape generators; product compared entry-wise with the schoolbook model; distinct = distinct (build, route, regime, strassen depth, "
         "strip set, size/mod-64 class of m,l,n, patterns); non-trivial = product != 0 and min(m,l,n) > 1",
    assumptions=MODEL,
    stages=[
        S("small-asan", "func", ["--fam", "mul"], (3000, 420), (60000, 1400)),
        S("small-asan", "func", ["--fam", "mul", "--policy", "win"], (800, 420), (15000, 1000)),
        S("host-asan", "func", ["--fam", "mul"], (1200, 500), (30000, 2100)),
        S("small-nosse-ts-asan", "func", ["--fam", "mul"], (800, 300), (20000, 1000)),
        S("small-gomp-asan", "func", ["--fam", "mul"], (600, 400), (20000, 1300), env={"OMP_NUM_THREADS": "3"}),
        S("odd-asan", "func", ["--fam", "mul"], (1500, 700), (20000, 1500)),
        # wide mode (see FUNC): dimensions <= 100 or > 512, second and later rounds of the 8-way unrolled word loops
        S("small-asan", "func", ["--fam", "mul", "--wide", "1"], (300, 1100), (3000, 1400)),
        S("small-nosse-ts-asan", "func", ["--fam", "mul", "--wide", "1"], (150, 1100), (1500, 1400)),
        S("small-msan", "func", ["--fam", "mul"], (500, 420), (8000, 1000)),
        S("mid-debug-asan", "func", ["--fam", "mul"], (600, 700), (10000, 1400)),
        S("mid-debug-asan", "func", ["--fam", "mul", "--policy", "win", "--wide", "1"], (200, 1100), (2000, 1400)),
    ],
    require_tags={"quick": ["strassen_depth=2", "cubic", "m4rm", "squaring"], "thorough": ["strassen_depth=3", "cubic", "m4rm", "squaring"]},
)

def FUNC(fam, q_small, t_small, q_host=None, t_host=None, q_ts=None, t_ts=None, extra=None):
    st = [S("small-asan", "func", ["--fam", fam], q_small, t_small),
          # the same oracle with operands that are windows into larger matrices (views are matrices too; C09 owns the full placement study)
          S("small-asan", "func", ["--fam", fam, "--policy", "win"], (max(300, q_small[0] // 4), q_small[1]), (t_small[0] // 4, t_small[1]))]
    if q_host:
        st.append(S("host-asan", "func", ["--fam", fam], q_host, t_host))
    if q_ts:
        st.append(S("small-nosse-ts-asan", "func", ["--fam", fam], q_ts, t_ts))
    # the same oracle in the OpenMP build with several threads: the value clauses of the property do not depend on the build, and a routine
    # that gains (or already has) a parallel region is only exercised there
    st.append(S("small-gomp-asan", "func", ["--fam", fam], (max(300, q_small[0] // 8), q_small[1]), (t_small[0] // 8, t_small[1]),
                env={"OMP_NUM_THREADS": "4"}, workers=8))
    # wide mode: dimensions are either <= 100 or > 512 columns/rows, so the library's 8-way unrolled word loops and the PLE/TRSM strips of
    # 8 words are left behind; the scalar (no-SSE2) variants of those loops get their own stage
    st.append(S("small-asan", "func", ["--fam", fam, "--wide", "1"], (max(240, q_small[0] // 24), 1100), (t_small[0] // 24, 1400)))
    st.append(S("small-nosse-ts-asan", "func", ["--fam", fam, "--wide", "1"], (max(120, q_small[0] // 48), 1100), (t_small[0] // 48, 1400)))
    # cache triple whose derived constants are not multiples of 64 (MUL_BLOCKSIZE 313): shapes of more than two such blocks
    st.append(S("odd-asan", "func", ["--fam", fam], (max(300, q_small[0] // 10), 700), (t_small[0] // 10, 1300)))
    st.append(S("odd-asan", "func", ["--fam", fam, "--wide", "1"], (max(150, q_small[0] // 40), 1100), (t_small[0] // 40, 1400)))
    # assertions compiled in (--enable-debug), third cache triple: the library's own assert()s act as additional monitors
    st.append(S("mid-debug-asan", "func", ["--fam", fam], (max(300, q_small[0] // 8), max(q_small[1], 400)), (t_small[0] // 8, t_small[1])))
    st.append(S("mid-debug-asan", "func", ["--fam", fam, "--policy", "win", "--wide", "1"], (max(150, q_small[0] // 40), 1100), (t_small[0] // 40, 1400)))
    # MemorySanitizer build: a value clause can hold by luck when a result depends on an uninitialised scalar that happens to be 0
    st.append(S("small-msan", "func", ["--fam", fam], (max(300, q_small[0] // 8), q_small[1]), (t_small[0] // 8, t_small[1])))
    if extra:
        st.extend(extra)
    return st

PROPS["C02"] = dict(
    level="exploration",
    rule="case = (route, m,n, prescribed rank profile or pattern, full, k, heuristic, threshold); rank compared with the model, full=1: result == unique RREF, "
         "full=0: echelon shape + same row space; top-reduction of a directly generated row echelon form == RREF; distinct = (build, route, full, k, "
         "heuristic, shape class, input kind); non-trivial = rank > 0 and profile != (0,1,2,..)",
    assumptions=MODEL,
    stages=FUNC("ech", (11200, 300), (150000, 1000), (2800, 400), (45000, 1500), (2800, 250), (45000, 800)),
)
PROPS["C03"] = dict(
    level="exploration",
    rule="case = (route, m,n, rank profile/pattern, cutoff, k, junk-or-identity P,Q on entry); oracle: r == model rank, i<=P[i]<m, i<=Q[i]<n, Q[0..r) == column "
         "rank profile, storage outside L/U zero, P*L*U*Q (P*L*E) == A reconstructed in the model; distinct = (build, route, base/recursive, k, shape class, "
         "input kind); non-trivial = 0 < r < min(m,n) or gapped profile",
    assumptions=MODEL + ["PLE storage is read the way mzd_echelonize_pluq reads it (row i: columns <= i cleared, column Q[i] set); stored diagonals are not read"],
    stages=FUNC("ple", (9600, 300), (120000, 1100), (2400, 400), (30000, 1500), (2400, 250), (30000, 800)),
    require_tags={"quick": ["ple_recursive", "ple_beyond_splitblock", "ple_tall_thin"], "thorough": ["ple_recursive", "ple_beyond_splitblock", "ple_tall_thin"]},
)
PROPS["C04"] = dict(
    level="exploration",
    rule="case = (variant, n, width, T with junk in the unused triangle, B pattern, cutoff); oracle: That*X == B0 (left) / X*That == B0 (right) with That the named "
         "unit triangle, T bit-identical afterwards; distinct = (build, variant, regime base/russian/recursive, shape class, B pattern); non-trivial = n>1, That != I, B != 0",
    assumptions=MODEL,
    stages=FUNC("trsm", (9600, 330), (120000, 900), (2000, 400), (30000, 2100), (2400, 300), (30000, 700)),
    require_tags={"quick": ["trsm_base", "trsm_russian", "trsm_recursive"], "thorough": ["trsm_base", "trsm_russian", "trsm_recursive"]},
)
PROPS["C05"] = dict(
    level="exploration",
    rule="case = (route, n, invertible A = P*L*U or unit upper triangular U, k, destination NULL/dirty); oracle: A*B == B*A == I in the model, A unchanged; "
         "trtri: result unit upper triangular and U0*result == I; distinct = (build, route, k, size class, regime); non-trivial = n > 1",
    assumptions=MODEL,
    stages=FUNC("inv", (4500, 400), (60000, 900), (900, 300), (15000, 1200), (900, 200), (15000, 600)),
    require_tags={"quick": ["trtri_recursive"], "thorough": ["trtri_recursive"]},
)
PROPS["C06"] = dict(
    level="exploration",
    rule="case = (route, m,n,w, A by rank profile/pattern, right-hand side: consistent A*X0 | + vector outside the column space (from a left-kernel vector) in one "
         "column | a single one in a padding row (first/second/last)); oracle: verdict == (rank[Ah] == rank[Ah|B]) with Ah = A padded to max(m,n) rows, and A*X == B "
         "when 0; distinct = (build, route, rhs kind, m<n/m=n/m>n, size classes, input kind); non-trivial = A rank deficient or verdict -1",
    assumptions=MODEL,
    stages=FUNC("solve", (8000, 220), (120000, 700), (1600, 300), (24000, 1200), (1600, 200), (24000, 500)),
    require_tags={"quick": ["rhs_padrow-first", "rhs_outside-colspace", "verdict_inconsistent", "verdict_solvable"],
                  "thorough": ["rhs_padrow-first", "rhs_outside-colspace", "verdict_inconsistent", "verdict_solvable"]},
)
PROPS["C07"] = dict(
    level="exploration",
    rule="case = (m,n, A by rank profile/pattern, cutoff); oracle: NULL iff model rank == n, else n x (n-r), A0*K == 0, rank(K) == n-r; distinct = (build, shape "
         "class, input kind); non-trivial = 0 < r < n",
    assumptions=MODEL,
    stages=FUNC("kernel", (6000, 300), (90000, 900), (1200, 400), (18000, 1300), (1200, 200), (18000, 600)),
    require_tags={"quick": ["kernel_trivial", "kernel_proper"], "thorough": ["kernel_trivial", "kernel_proper", "kernel_all"]},
)
PROPS["C13"] = dict(
    technique="runtime monitoring: reference-model oracle (explicit swap / bit semantics) over random, grid-enumerated and column-pair-enumerated cases in ASan/UBSan builds, parent-snapshot monitor for window operands",
    level="exploration",
    rule="case = (primitive, shape, indices (word-boundary biased), row ranges incl. empty, LAPACK permutation (identity/single/random/all-last, full or shorter)); "
         "oracle: explicit model of each primitive; relations left==right permutation matrix and X then X_trans restores; distinct = (build, primitive, parameter class, "
         "shape class); non-trivial = result differs from input",
    assumptions=MODEL + ["mzd_apply_p_right_even_capped is only exercised with start_col = 0 (its start_col semantics for the non-transposed variant are not stated)",
                         "mzd_and_bits is not exercised (not named by the property)"],
    stages=FUNC("rowcol", (18000, 330), (400000, 700), (4500, 330), (80000, 1500), (4500, 200), (80000, 500), extra=[
        # every pair of columns for matrices up to 3 words wide (same word / different words, all bit positions), 5 row counts
        S("small-asan", "func", ["--ops", "mzd_col_swap,mzd_col_swap_in_rows", "--arg", "colpairs:2"], (32768, 0), (0, 0)),
        S("small-asan", "func", ["--ops", "mzd_col_swap,mzd_col_swap_in_rows", "--arg", "colpairs:3"], (0, 0), (368640, 0)),
    ]),
)
PROPS["C17"] = dict(
    technique="runtime monitoring: reference-model oracle and relational checks (antisymmetry, transitivity, consistency with equality) on observed return values in ASan/UBSan builds",
    level="exploration",
    rule="case = (observer, shape, content: pairs differing in exactly one bit at a position class first/middle/last word/last row, chains for cmp, single-bit and "
         "zero-tail matrices, pivot search starts incl. last word/last 64 columns); oracle: model predicates; distinct = (build, observer, content class, shape class); "
         "non-trivial = inputs differ in exactly one bit / region's first one is placed by the generator",
    assumptions=MODEL,
    stages=FUNC("obs", (24000, 300), (600000, 700), (4500, 300), (80000, 1200), (4500, 200), (40000, 400)),
)
PROPS["C08"] = dict(
    level="exploration",
    rule="case = (operation, shape, pattern dense/ones/single/..., destination NULL/dirty/aliased); oracle: entry-wise model; transpose twice == original; "
         "distinct = (build, operation, kernel/width/path class, shape residues, pattern, destination kind); non-trivial = matrix != 0 and shape != 1x1",
    assumptions=MODEL,
    stages=FUNC("move", (18000, 200), (300000, 900), (3600, 800), (60000, 2100), (3600, 150), (60000, 600), extra=[
        # bounded-exhaustive shape grids: every (nrows, ncols) in [1,N]^2 for transpose / copy / add / set_ui (all 12 size-specialised transpose
        # kernels with every residue pair); quick: N = 66 for transpose only, thorough: N = 130 for four ops
        S("small-asan", "func", ["--ops", "mzd_transpose", "--arg", "grid:66"], (4356, 0), (0, 0)),
        # assertions compiled in (--enable-debug): an assert that fires on a valid call is a crash in a supported configuration
        S("mid-debug-asan", "func", ["--fam", "move", "--wide", "1"], (600, 1100), (8000, 1400)),
        S("small-asan", "func", ["--ops", "mzd_transpose,mzd_copy,mzd_add,mzd_set_ui", "--arg", "grid:130"], (0, 0), (67600, 0)),
        S("small-nosse-ts-asan", "func", ["--ops", "mzd_transpose,mzd_add", "--arg", "grid:130"], (0, 0), (33800, 0)),
    ]),
    require_tags={"quick": ["transpose_le8", "transpose_le16", "transpose_le32", "transpose_lt64", "transpose_block", "transpose_split64", "transpose_split512",
                            "submatrix_aligned", "submatrix_unaligned"],
                  "thorough": ["transpose_le8", "transpose_split512", "submatrix_unaligned"]},
)

PROPS["C09"] = dict(
    technique="runtime monitoring: snapshot monitor over the whole parent allocation (bits outside the view before/after), differential against standalone copies and re-randomised surroundings, ASan/UBSan builds",
    level="exploration",
    rule="case = (operation, operand values, per-operand placement: owned / window at even word / window at odd word, row offset 0 or not, view width mod 64, parent "
         "ending with the view, inside its last word, or wider; random or zero surround); oracles: model result, bit-exact snapshot of every parent allocation "
         "outside the view, read-only operands unchanged, same outputs as the call on standalone copies, same outputs under another placement and surround; "
         "distinct = (build, operation, placement tuple, parameter class); non-trivial = at least one operand is a window with non-zero random surround",
    assumptions=MODEL + ["parents' own padding bits are kept zero (the library may assume that)", "djb_apply_mzd is not exercised on windows (low-level interface)"],
    stages=[
        S("small-asan", "views", [], (9000, 200), (160000, 500)),
        S("small-nosse-ts-asan", "views", [], (2500, 150), (40000, 400)),
        S("host-asan", "views", [], (1500, 300), (30000, 1200)),
        # sizes that enter the block-recursive PLE / TRSM / Strassen regimes on windows
        S("small-asan", "views", ["--fam", "ple,ech,solve,kernel,trsm,inv,mul"], (700, 420), (12000, 900)),
        S("small-asan", "views", ["--wide", "1"], (500, 1100), (6000, 1400)),
        S("small-nosse-ts-asan", "views", ["--wide", "1"], (250, 1100), (3000, 1400)),
    ],
)

PROPS["C10"] = dict(
    technique="runtime monitoring: history / heap-poisoning differential (same call under 7 allocator and cache environments, interposed allocator), raw padding-word monitor, MemorySanitizer and valgrind memcheck attribution per case",
    level="exploration",
    rule="case = (operation, operand values) executed under 7 environments: fresh (empty block cache, no poison) | after 1-3 executions of the same op (dirty cached "
         "blocks of exactly its temporaries' sizes) | fresh blocks poisoned 0xFF | 0xA5 + cached blocks overwritten | PRNG bytes + cached blocks overwritten | after "
         "a random prefix of other library calls | 0x00; supplied destinations that the op overwrites are re-filled with other content in each environment; oracle: "
         "bit-identical outputs (matrices, return values, permutations) across environments, model result in each, zero padding of every owned operand/result; "
         "second monitor: the op table under valgrind memcheck in the cache-free build, any new memcheck error during a case is a violation; "
         "distinct = (build, operation, parameter class, shape class, patterns); non-trivial = the operation allocated temporaries (counted by the interposer)",
    assumptions=MODEL + ["allocator interposer (harness/alloc_wrap.c) sees every allocation request of the library and nothing else"],
    stages=[
        S("small-plain", "pure", [], (2500, 200), (40000, 600)),
        # storage above the block-cache threshold (64 KiB in the small triple): such blocks bypass the cache
        S("small-plain", "pure", ["--fam", "mul,ech,ple,trsm,inv,solve,kernel,move", "--mindim", "700"], (260, 1100), (4000, 1600)),
        S("small-asan", "pure", [], (1200, 160), (20000, 400)),
        # operands that are windows with non-zero excess bits: owned results must still come out with zero padding and independent of the history
        S("small-plain", "pure", ["--policy", "win"], (1500, 200), (24000, 600)),
        # the same histories under MemorySanitizer (origins tracked): a result, branch or address that depends on uninitialised memory is reported at its use
        S("small-msan", "pure", [], (800, 160), (12000, 400)),
        S("host-nosse-plain", "pure", [], (600, 260), (10000, 900)),
        S("small-ts-plain-vg", "func", ["--balance", "0"], (160, 90), (2400, 260), valgrind=True, timeout=300),
    ],
)

ALLFAM = "mul,ech,ple,trsm,inv,solve,kernel,move,rowcol,obs"
PROPS["C11"] = dict(
    technique="runtime monitoring: AddressSanitizer + UndefinedBehaviorSanitizer (gcc and clang) and MemorySanitizer builds with fatal reports attributed per case, per-case allocation / header-pool balance, abort-hook monitor for ill-dimensioned calls in forked children",
    level="exploration",
    rule="monitor A: the workloads of C01-C09/C13/C17 (every op of the table, operands owned or windows incl. odd word offsets = row starts 8 mod 16) in ASan+UBSan "
         "builds with fatal reports, each case attributed; monitor B: allocation balance per case (library blocks live before == after everything was freed, block "
         "cache excluded; header leaks visible in the cache-free build); monitor C: every checked public wrapper called with each kind of dimension mismatch in a "
         "forked child whose abort() is hooked: must die by SIGABRT through m4ri_die with a diagnostic, operands bit-identical, no sanitizer report; "
         "distinct = (build, op, parameter class, shape class, placement tuple) resp. (wrapper, mismatch kind); non-trivial = case executed library code on non-1x1 operands",
    assumptions=MODEL + ["ASan red zones miss non-adjacent and intra-block overflows (DESIGN.md section 7)"],
    stages=[
        S("small-asan", "func", ["--fam", ALLFAM, "--policy", "win"], (6000, 260), (120000, 700)),
        S("small-nosse-ts-asan", "func", ["--fam", ALLFAM, "--policy", "win"], (3000, 200), (60000, 500)),
        S("host-asan", "func", ["--fam", ALLFAM, "--policy", "win"], (1500, 400), (30000, 1500)),
        S("mid-debug-asan", "func", ["--fam", ALLFAM, "--policy", "win"], (2000, 300), (40000, 900)),
        S("odd-asan", "func", ["--fam", ALLFAM, "--policy", "win"], (2000, 450), (40000, 1000)),
        S("host-clang-asan", "func", ["--fam", ALLFAM, "--policy", "win"], (3000, 300), (60000, 1200)),
        # MemorySanitizer: reads of uninitialised scalars / heap words that influence a branch, an address or a result
        S("small-asan", "func", ["--fam", ALLFAM, "--policy", "win", "--wide", "1"], (500, 1100), (6000, 1400)),
        S("mid-debug-asan", "func", ["--fam", ALLFAM, "--wide", "1"], (600, 1100), (8000, 1400)),
        S("small-msan", "func", ["--fam", ALLFAM], (4000, 300), (60000, 800)),
        S("small-msan", "func", ["--fam", ALLFAM, "--policy", "win"], (2000, 300), (30000, 800)),
        S("small-gomp-asan", "func", ["--fam", "mul,ech", "--policy", "win"], (500, 300), (10000, 700), env={"OMP_NUM_THREADS": "4"}),
        S("small-asan", "illdim", [], (840, 150), (8400, 300)),
        S("small-gomp-asan", "illdim", [], (460, 150), (4600, 300), env={"OMP_NUM_THREADS": "2"}),
    ],
)

C12_FAM = "mul,ech,ple,trsm,inv,solve,kernel"
def _c12(cfg, q, t, **kw):
    return S(cfg, "digest", ["--fam", C12_FAM, "--reps", "2"], q, t, **kw)
PROPS["C12"] = dict(
    technique="runtime monitoring: the same seeded cases executed in 7-10 differently configured / compiled builds, offline comparison of the recorded canonical-output digests plus per-build reference-model oracle",
    level="exploration",
    cross_digest=True,
    rule="case = one seeded operand set (generators aim alternately at the regime boundaries of the small and of the host cache triple, identically in every build); "
         "each build prints a 64-bit digest of the canonical output (product, RREF + rank, inverse, TRSM solution, solvability verdict, rank + column rank profile "
         "for PLE/PLUQ, kernel dimension) and re-runs the case with 2 other admissible (k, cutoff, threshold) choices; oracle: digests equal across all builds and "
         "parameter choices, and each build's result equals the model (names the culprit); distinct = (op class, set of regimes the builds were in); "
         "non-trivial = the same input is in different regimes in at least two builds",
    assumptions=MODEL + ["factors P,L,U,Q, kernel bases and solutions of singular systems are not unique and deliberately not digested",
                         "cache triples sampled: 4K:32K:64K, 6K:48K:96K (derived constants not powers of two), 16K:256K:1M, 32K:1280K:54M",
                         "two compilers / optimisation levels (gcc -O1/-O2/-O3, clang-14 -O2) are part of the build matrix so that code whose result depends on undefined behaviour shows up as a digest mismatch"],
    stages=lambda tier: [
        _c12("small-asan", (2500, 700), (12000, 1200)),
        _c12("host-asan", (2500, 700), (12000, 1200)),
        _c12("small-nosse-ts-asan", (2500, 700), (12000, 1200)),
        _c12("host-gomp-asan", (2500, 700), (12000, 1200), env={"OMP_NUM_THREADS": "4"}),
        _c12("odd-asan", (2500, 700), (12000, 1200)),
        _c12("small-gomp-asan", (2500, 700), (12000, 1200), env={"OMP_NUM_THREADS": "3"}, workers=8),
        _c12("small-O3-plain", (2500, 700), (12000, 1200)),
        _c12("host-clang-asan", (2500, 700), (12000, 1200)),
    ] + ([
        _c12("mid-debug-asan", (0, 420), (12000, 1200)),
        _c12("host-nosse-plain", (0, 420), (12000, 1200)),
    ] if tier == "thorough" else []),
)

PROPS["C19"] = dict(
    technique="runtime monitoring: complete enumeration of the finite domains against the executing library (code book, tables, parity, masks, bit kernels) with bit-level oracles, ASan/UBSan build",
    level="exploration",
    exhaustive=True,
    rule="finite domains enumerated completely: code book for k=1..16 (all 2^k entries: permutation, one-bit steps incl. wrap-around, increment == changed bit); "
         "mzd_make_table for k=1..16 on random M, all 2^k patterns x: T[L[x]] == sum of the rows selected by x, masked from column c (k<=12 on several shapes/offsets); "
         "m4ri_parity64 on all 64x64 single-bit inputs + 20000 random buffers; LEFT/RIGHT/MIDDLE bit masks for every length and offset (2209 combinations); "
         "m4ri_swap_bits on all single-bit words + 10^5 random; spread/shrink for every length 1..16 (basis + random, inverse of each other, exact bit selection); "
         "m4ri_lesser_LSB on all pairs of {0, 64 single bits, 75 random}; distinct = sub-check; every sub-check is non-trivial",
    assumptions=["model implementations in harness/mon_gray.c (bit loops)"],
    stages=[
        S("small-asan", "gray", [], (62, 0), (400, 0)),
        S("host-nosse-plain", "gray", [], (62, 0), (200, 0)),
    ],
)

PROPS["C14"] = dict(
    technique="runtime monitoring: shadow-heap monitor over scripted and random allocation histories (interposed allocator, canaries, zero check, disjointness, header-pool hook), ASan, balance after m4ri_fini",
    level="exploration",
    rule="case = one history over {init(r,c), init_window(parent,...) incl. windows of windows, free(x)} checked against a shadow model: scripted histories "
         "(17+ distinct freed sizes -> eviction; equal sizes -> exact-size reuse of a dirty block; sizes just below/at/above the caching threshold; >64, >1024 "
         "simultaneously live headers; emptying a middle header block; zero-area matrices) and random ones (few or many distinct sizes, 200-5000 steps); oracles: "
         "fresh matrix entirely zero incl. rowstride padding, storage and headers disjoint from every live object, id-derived canaries of all live matrices intact, "
         "windows alias their parent's canary, block cache holds no live/duplicate/NULL block, header pool count (hook) == shadow count, after freeing everything in "
         "random order and m4ri_fini() the interposer's live set is empty; ASan catches use-after-free/double free in the caches; "
         "bounded-exhaustive part: in a build with 2 block-cache slots and 3 header blocks (guarded hook) every sequence of 5 (quick) / 6 (thorough) operations from "
         "{init 1x64, init 2x64, init 3x64, init above the caching threshold, free oldest, free newest, window of newest, cache cleanup} is run from each of four states "
         "(0 live headers, 62, capacity-2, and three header blocks of which the first two hold one live header each) with the full state check after every operation; "
         "distinct = (build, history kind, length bucket) resp. the operation sequence; every history is non-trivial (reaches reuse / eviction / second header block / unlink / fallback, tagged)",
    assumptions=["shadow model and canary stream in harness/mon_alloc.c", "allocator interposer sees every allocation request of the library",
                 "the bounded-exhaustive stage runs the library with the two capacity constants overridden to 2 slots / 3 header blocks; the code is otherwise the same, the random and scripted histories run with the shipped capacities"],
    stages=[
        S("small-asan", "alloc", [], (400, 0), (12000, 0)),
        S("small-nosse-ts-asan", "alloc", [], (200, 0), (6000, 0)),
        S("host-asan", "alloc", [], (72, 0), (1500, 0), timeout=600),
        S("small-gomp-asan", "alloc", [], (100, 0), (2000, 0), env={"OMP_NUM_THREADS": "2"}),
        # bounded-exhaustive: ALL operation sequences of length 5 (quick) / 6 (thorough) over 8 operations from 4 prepared states, in the build
        # whose cache capacities are overridden by the guarded hook (2 block slots: eviction after 3 frees; 3 header blocks: spill after 192 live headers)
        S("tiny-caches-asan", "alloc", ["--arg", "exh:5"], (4 * 8 ** 5, 0), (0, 0)),
        S("tiny-caches-asan", "alloc", ["--arg", "exh:6"], (0, 0), (4 * 8 ** 6, 0)),
    ],
    require_tags={"quick": ["reuse", "eviction", "headers>64", "headers>1024", "unlink", "zero-area", "window", "below-threshold", "above-threshold", "header-spill", "bounded-exhaustive"],
                  "thorough": ["reuse", "eviction", "headers>64", "headers>1024", "unlink", "zero-area", "window", "below-threshold", "above-threshold", "header-spill", "bounded-exhaustive"]},
)

PROPS["C20"] = dict(
    technique="runtime monitoring with fault injection: every allocation request of each scenario fails once (interposed allocator, one forked child per request), oracle on the child's termination signal, stderr and sanitizer output",
    level="fault_enumeration",
    rule="scenario = one op of the table (every multiplication route, elimination, factorisation, TRSM, inversion, solve, kernel, data movement, permutation "
         "application, observers) or one of: mzd_init, 140 x mzd_init_window, init/free churn, mzp init/copy/window, PNG write, PNG read, JCF read, from_str, "
         "DJB compile with growing arrays; a dry-run child counts the N allocation requests the library makes inside the scenario (interposer armed only there); "
         "then for EVERY i = 1..N a fresh forked child runs the same scenario with request i returning NULL/ENOMEM; oracle: SIGABRT, a diagnostic on stderr (any wording), "
         "no sanitizer report, no SIGSEGV, no normal return, no hang; evaluations counts children; "
         "distinct = (build, scenario, number of requests bucket); non-trivial = scenario makes at least one allocation request",
    assumptions=["allocator interposer (ld --wrap on the library objects only) sees every allocation request of m4ri itself; libpng/libc internal allocations are not injected",
                 "a request satisfied from the library's own block cache is not an allocation request"],
    stages=[
        S("small-asan", "allocfail", ["--fam", ALLFAM, "--dir", "@TMP@"], (190, 110), (1900, 600), timeout=900),
        S("small-plain", "allocfail", ["--fam", ALLFAM, "--dir", "@TMP@"], (95, 110), (950, 500), timeout=900),
        S("small-nosse-ts-asan", "allocfail", ["--fam", ALLFAM, "--dir", "@TMP@"], (95, 90), (950, 400), timeout=900),
    ],
)

PROPS["C18"] = dict(
    technique="runtime monitoring: round-trip oracle with an independent PNG decoder, forged PNG/JCF files read in forked children under ASan/UBSan and valgrind memcheck with a process-fate oracle",
    level="fault_enumeration",
    rule="round trip: matrices of every ncols residue mod 64 (hence mod 8) x heights x patterns x compression levels 0-9 x empty/short/long comments, owned or window "
         "sources: file written by mzd_to_png is decoded by the harness's own zlib-based PNG decoder (chunk CRCs, IHDR, filters, bit order, comment chunk) and by "
         "mzd_from_png, both must give the model matrix; mzd_from_str / mzd_from_jcf against strings/files generated from the model. Forged files (forge.py): "
         "valid 1-bit gray files from an independent encoder (all 5 filter types, split IDAT, ancillary chunks) -> exact matrix; every bit depth {1,2,4,8,16} x colour "
         "type {0,2,3,4,6} x {interlaced, not}; truncation at every chunk boundary and inside chunks; corrupted bytes with wrong and with repaired CRC; bad signature, "
         "missing IHDR/IEND, invalid IHDR fields, absurd dimensions, too little/too much image data; JCF: index 0, positive first entry, index > ncols, too many "
         "rows, wrong modulus, short/missing header, negative dimensions, LONG_MIN/LONG_MAX, non-numeric tokens; each file is read in a forked child under "
         "ASan+UBSan (thorough: also memcheck); oracle: no sanitizer report / SIGSEGV for ANY file; files that cannot denote a 0/1 matrix must end in NULL or "
         "process termination; tolerable damage may be accepted but then the matrix must be the expected one; distinct = (build, reader, corruption class, "
         "expectation); every file case is non-trivial",
    assumptions=["harness PNG decoder/encoder (mon_io.c, forge.py) and zlib", "libpng is not instrumented: under ASan only its memcpy-style overflows are visible; the memcheck stage closes that gap"],
    stages=[
        S("small-asan", "io", ["--dir", "@TMP@"], (1600, 60), (24000, 120)),
        S("small-asan", "io", ["--dir", "@TMP@"], (0, 0), (0, 0), forge={"quick": (40, 25, 12), "thorough": (600, 300, 160)}),
        S("small-nosse-ts-asan", "io", ["--dir", "@TMP@"], (400, 60), (4000, 120)),
        S("small-ts-plain-vg", "io", ["--dir", "@TMP@"], (0, 0), (0, 0), forge={"quick": (6, 4, 2), "thorough": (60, 40, 25)}, valgrind=True, timeout=300),
    ],
)

THR_FAM = "mul,ech,ple,trsm,inv,solve,kernel,move,rowcol"
PROPS["C15"] = dict(
    level="exploration",
    rule="case = one concurrent run: T in {2,3,4,8,16} threads released from a barrier, each executing its own seeded sequence of 12 calls (multiplication routes, "
         "elimination, PLE/PLUQ, TRSM, inversion, solve, kernel, transpose/copy, row/column operations, with the init/free churn of their operands) on thread-private "
         "matrices, sched_yield / short sleeps between calls; oracles: ThreadSanitizer reports captured in-process (__tsan_on_report), any report with a library frame "
         "is a violation keyed by the innermost library functions of the two accesses; every result is compared with the model inside the thread; the per-thread digest "
         "sequence equals a sequential execution of the same sequences; evidence: pairs of calls of different threads that overlapped in time (one monotonic clock) and "
         "which ops were seen concurrent; distinct = (build, T, number of ops seen concurrent); non-trivial = at least one pair of calls overlapped",
    assumptions=MODEL + ["TSan sees only races between accesses the workload performed; calibrated: same harness on the cache-enabled configuration gives > 200 reports"],
    technique="runtime monitoring: ThreadSanitizer on a pthread stress harness + reference-model and sequential-replay oracles",
    stages=[
        S("small-ts-tsan", "threads", ["--fam", THR_FAM], (160, 160), (1500, 400), timeout=300),
        S("host-ts-tsan", "threads", ["--fam", THR_FAM], (50, 260), (400, 700), timeout=300),
    ],
    require_tags={"quick": ["T=2", "T=16", "overlapping_call_pairs=10-99"], "thorough": ["T=2", "T=16"]},
)

OMP_FAM = "mul,ech"
def _c16_stages(tier):
    st = _c16_stages0(tier)
    for x in st:
        # do not oversubscribe the 16 cores: workers x OpenMP threads <= 32
        t = int(x.get("env", {}).get("OMP_NUM_THREADS", "1"))
        x["workers"] = max(2, min(16, 32 // t))
    return st

def _c16_stages0(tier):
    st = []
    nthr = [1, 2, 3, 4, 5, 8, 16] if tier == "thorough" else [1, 2, 3, 16]
    for t in nthr:
        for nested in ((1, 2) if tier == "thorough" or t == 3 else (1,)):
            env = {"OMP_NUM_THREADS": str(t), "OMP_MAX_ACTIVE_LEVELS": str(nested), "OMP_NESTED": "true" if nested > 1 else "false"}
            st.append(S("host-gomp-asan", "func", ["--fam", OMP_FAM, "--mindim", "1100"], (36, 1500), (200, 2400), env=env, timeout=900))
    # elimination only: which of process_rows 1..6 handles a block depends on the number of pivots found in it (ncols mod 6k for the
    # last block), and the parallel row loops only split into chunks beyond 512 rows
    for t in ([2, 4, 8] if tier == "thorough" else [2, 4]):
        env = {"OMP_NUM_THREADS": str(t)}
        st.append(S("host-gomp-asan", "func", ["--fam", "ech", "--mindim", "1100"], (150, 1500), (1200, 2200), env=env, timeout=900))
    # small triple: the recursion (Strassen inside the four mp sections) is deep here
    for t in ([2, 4, 7] if tier == "thorough" else [4]):
        st.append(S("small-gomp-asan", "func", ["--fam", OMP_FAM], (400, 700), (4000, 1300), env={"OMP_NUM_THREADS": str(t)}, timeout=900))
    # the multi-core front ends themselves (quadrant sections + remainder strips), small cutoffs so that they split
    MP = "mzd_mul_mp,mzd_addmul_mp"
    for t in ([2, 3, 4, 8, 16] if tier == "thorough" else [2, 4, 8]):
        st.append(S("small-gomp-asan", "func", ["--ops", MP], (500, 700), (3000, 1300), env={"OMP_NUM_THREADS": str(t)}, timeout=600))
    # races inside parallel regions: clang + libomp + Archer
    for t in ([2, 4, 16] if tier == "thorough" else [4, 16]):
        env = {"OMP_NUM_THREADS": str(t), "OMP_TOOL_LIBRARIES": "/usr/lib/llvm-14/lib/libarcher.so",
               "TSAN_OPTIONS": "halt_on_error=0:ignore_noninstrumented_modules=1:report_signal_unsafe=0:history_size=4"}
        st.append(S("host-omp-archer", "threads", ["--arg", "omp", "--fam", OMP_FAM, "--reps", "3", "--mindim", "1100"], (10, 1500), (100, 2400), env=env, timeout=900))
        st.append(S("host-omp-archer", "threads", ["--arg", "omp", "--ops", MP, "--reps", "4", "--mindim", "300"], (12, 900), (120, 1600), env=env, timeout=900))
        # elimination only: every process_rows variant with more than one 512-row chunk, so that a race that the optimiser happens to hide
        # (a scratch variable shared instead of private) is still seen by the race detector
        st.append(S("host-omp-archer", "threads", ["--arg", "omp", "--fam", "ech", "--reps", "2", "--mindim", "1100"], (40, 1500), (300, 2200), env=env, timeout=900))
    return st
PROPS["C16"] = dict(
    level="exploration",
    rule="results monitor: mzd_mul_mp, mzd_addmul_mp, mzd_mul, mzd_addmul, M4RM and M4RI elimination routes in the OpenMP builds (libgomp) with OMP_NUM_THREADS in "
         "1..16, nested regions on/off, shapes >= 1100 rows (host cache triple: static chunks of 512 rows spread over threads) with remainder strips that are not "
         "multiples of 128, supplied dirty destinations; every result compared with the model (hence with the sequential build, whose results C01/C02 compare with the "
         "same model); race monitor: the same calls in a clang+libomp build under ThreadSanitizer with the Archer OMPT tool (teaches TSan OpenMP's synchronisation), "
         "any report with a library frame is a violation; distinct = (build, threads, route, regime, shape class); non-trivial as C01/C02",
    assumptions=MODEL + ["libgomp itself is not understood by TSan, so races are looked for with libomp+Archer and results under both runtimes",
                         "calibrated on a scratch copy: dropping private(x,t) from the M4RM row loop gives TSan reports in one 1400-row product"],
    technique="runtime monitoring: reference-model oracle under varying OMP_NUM_THREADS + ThreadSanitizer/Archer on OpenMP regions",
    stages=_c16_stages,
)
