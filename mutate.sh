#!/bin/sh
# maintenance: run checks against a mutated scratch copy of /repo.  usage: mutate.sh <patch> <prop> [<prop>...]
set -e
P=$(readlink -f "$1"); shift
D=$(mktemp -d /tmp/mut.XXXXXX)
cp -r /repo/m4ri "$D/m4ri"
rm -f "$D"/m4ri/*.o "$D"/m4ri/*.lo
(cd "$D" && grep -v '^#' "$P" | patch -p1 -s) || { echo "patch failed"; rm -rf "$D"; exit 3; }
for p in "$@"; do
  VERIF_REPO="$D" VERIF_EVIDENCE_DIR="$D/evidence" python3 /verif/verif.py check "$p" --tier "${TIER:-quick}" 2>&1 | grep -E "^VIOLATION|key=|^C[0-9]+ |INCONCL|HARNESS" | cut -c1-200 | head -${LINES_MAX:-8}
done
rm -rf "$D"
