/* Harness core: event log, raw-layout conversions, operands with placement, snapshots. */
#ifndef VERIF_HX_H
#define VERIF_HX_H
#include <m4ri/m4ri.h>
#include <m4ri/mmc.h>
#include <m4ri/djb.h>
#include <m4ri/ple_russian.h>
#include <m4ri/triangular_russian.h>
#include "gen.h"
#include "ref.h"

/* ---- event log (one line per event on stdout; parsed by verif.py) ---- */
typedef struct {
  const char *prop;
  uint64_t seed;
  long idx;
  int tier; /* 0 quick, 1 thorough */
  int nfail;
  int nontrivial;
  char cls[512];
  char tags[512];
  int open;
} hx_ctx_t;
extern __thread hx_ctx_t HX; /* per thread: monitors may run library calls in several threads */
extern __thread char *HX_FAILBUF; /* when set, hx_fail appends 'key\tmsg\n' here instead of printing */
extern __thread size_t HX_FAILCAP;
void hx_reset(long idx); /* start of a case: clears class/tags/fail count */
void hx_begin(long idx, const char *keyprefix, const char *fmt, ...); /* printed just before the library is entered */
void hx_fail(const char *key, const char *fmt, ...);
void hx_tag(const char *fmt, ...);
void hx_cls(const char *fmt, ...);
void hx_end(void);
void hx_note(const char *fmt, ...); /* free-form "N ..." line */
void hx_die(const char *fmt, ...);  /* harness failure: exit 2 */

/* ---- conversions by raw layout ---- */
rm_t *rm_from_mzd(const mzd_t *M);
void rm_to_mzd(mzd_t *M, const rm_t *A); /* writes only the in-view bits */
static inline int raw_get(const mzd_t *M, int i, int j) { return (int)((M->data[(size_t)i * M->rowstride + j / 64] >> (j % 64)) & 1); }
static inline void raw_set(mzd_t *M, int i, int j, int v) {
  word *w = &M->data[(size_t)i * M->rowstride + j / 64];
  *w = (*w & ~((word)1 << (j % 64))) | ((word)(v & 1) << (j % 64));
}
uint64_t mzd_raw_digest(const mzd_t *M); /* digest of in-view bits */

/* ---- operands ---- */
enum { PL_OWN = 0, PL_WIN_EVEN = 1, PL_WIN_ODD = 2 };
typedef struct {
  mzd_t *M;      /* what the library gets */
  mzd_t *parent; /* NULL when M owns its storage */
  int kind;      /* PL_* */
  int r0, c0;    /* offset of view in parent */
  int zero_surround;
  int borrowed_parent; /* the parent belongs to another opnd_t (shared-parent placement) */
  word *snap; /* snapshot of whole allocation */
  size_t nwords;
  char cls[24];
} opnd_t;

/* placement policy bits */
#define PP_OWN_ONLY 0
#define PP_ANY 1
/* make operand holding value val; kind<0: choose by policy from rng */
opnd_t *opnd_make(rng_t *r, const rm_t *val, int kind);
/* wrap an already created owned matrix (e.g. returned by the library) */
opnd_t *opnd_wrap(mzd_t *M);
/* a second view of m x n entries anchored at the same cell of host's parent (host must be a window whose block covers it) */
opnd_t *opnd_make_in_parent(const opnd_t *host, int m, int n);
void opnd_snapshot(opnd_t *o);
/* number of bit positions outside the view that differ from the snapshot */
long opnd_outside_diff(const opnd_t *o);
/* number of words differing anywhere in the allocation */
long opnd_total_diff(const opnd_t *o);
/* bits set in padding (beyond last column, word width-1) of the storage owner */
long opnd_padding_bits(const opnd_t *o);
long mzd_padding_bits(const mzd_t *M);
rm_t *opnd_value(const opnd_t *o);
void opnd_free(opnd_t *o);
/* re-randomise everything outside the view (keeping parent padding zero) */
void opnd_rerandomize_surround(rng_t *r, opnd_t *o);
const char *opnd_cls(const opnd_t *o);

/* total bytes helper */
static inline size_t mzd_alloc_words(const mzd_t *M) { return (size_t)M->nrows * (size_t)M->rowstride; }

/* LAPACK-style permutations applied in the model */
void rm_apply_p_rows_asc(rm_t *A, const int *p, int len);
void rm_apply_p_rows_desc(rm_t *A, const int *p, int len);
void rm_apply_p_cols_asc(rm_t *A, const int *p, int len);
void rm_apply_p_cols_desc(rm_t *A, const int *p, int len);

/* build constants as strings for evidence */
const char *hx_build_info(void);

/* allocator interposer (alloc_wrap.c) */
extern volatile int AW_armed;        /* count/fail only while armed */
extern volatile long AW_count;       /* allocation requests seen while armed */
extern volatile long AW_fail_at;     /* 1-based index of request to fail; 0 = never */
extern volatile int AW_poison;       /* 0 none, 1: 0x00, 2: 0xFF, 3: 0xA5, 4: PRNG */
extern volatile long AW_failed_seen; /* number of failures injected */
long aw_live_blocks(void);
size_t aw_live_bytes(void);
void aw_track(int on); /* track live set */
void aw_live_reset(void);
void aw_dump_live(int max);
long AW_total_calls_get(void);
extern void (*AW_abort_hook)(void);

#endif
