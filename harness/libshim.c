/* Compiled into the LIBRARY side of the link (same allocator wrapping as m4ri itself), so that
 * objects allocated by inline header code inside the library are released through the same wrapper. */
#include <m4ri/m4ri.h>
#include <m4ri/djb.h>
void hx_djb_free(void *z) { djb_free((djb_t *)z); }
#ifdef M4RI_VERIF
#endif
