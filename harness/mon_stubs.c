#include "mon.h"
int mon_threads(const mon_args_t *a) { (void)a; hx_die("not built"); return 2; }
