#include "mon.h"
