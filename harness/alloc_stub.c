/* used instead of alloc_wrap.c in builds where allocator interposition is off (TSan) */
#include <stddef.h>
volatile int AW_armed = 0;
volatile long AW_count = 0;
volatile long AW_fail_at = 0;
volatile int AW_poison = 0;
volatile long AW_failed_seen = 0;
void (*AW_abort_hook)(void) = 0;
long aw_live_blocks(void) { return 0; }
size_t aw_live_bytes(void) { return 0; }
void aw_track(int on) { (void)on; }
void aw_live_reset(void) {}
void aw_dump_live(int max) { (void)max; }
long AW_total_calls_get(void) { return 0; }
void aw_init(void) {}
