/* Multiplication routes (C01). slots: 0 = C (destination / accumulator), 1 = A, 2 = B */
#include "ops.h"
#include <stdio.h>
#include <stdlib.h>
#include <string.h>

enum {
  V_MUL_NAIVE,
  V_ADDMUL_NAIVE,
  V__MUL_NAIVE,
  V__MUL_VA,
  V_MUL_M4RM,
  V_ADDMUL_M4RM,
  V__MUL_M4RM,
  V_MUL,
  V_ADDMUL,
  V_SQR,
  V_ADDSQR,
  V_MUL_MP,
  V_ADDMUL_MP,
  V_DJB
};

static const int CUTOFFS[] = {0, 0, 1, 63, 64, 64, 65, 100, 128, 128, 192, 256, 512, 1000, 2048, 4096};
static const int KS[] = {-1, 0, 0, 1, 2, 3, 4, 5, 6, 7, 8, 9, 10, 16, 17, 1000};

static int eff_cutoff2(int cutoff, int dflt) {
  if (cutoff == 0) cutoff = dflt;
  cutoff = cutoff / 64 * 64;
  if (cutoff < 64) cutoff = 64;
  return cutoff;
}
static int closer(int a, int cutoff) { return 3 * a < 4 * cutoff || a < 128; }
/* coverage information only: replicate the split arithmetic to label the regime */
static void strassen_regime(int m, int k, int n, int cutoff, int *depth, int *emptyq, int *strips) {
  *depth = 0;
  *emptyq = 0;
  *strips = 0;
  while (!(closer(m, cutoff) || closer(k, cutoff) || closer(n, cutoff))) {
    int mult = 64, width = (m < n ? (m < k ? m : k) : (n < k ? n : k)) / 2;
    while (width > cutoff) {
      width /= 2;
      mult *= 2;
    }
    int mmm = (((m - m % mult) / 64) >> 1) * 64, kkk = (((k - k % mult) / 64) >> 1) * 64, nnn = (((n - n % mult) / 64) >> 1) * 64;
    if (mmm == 0 || kkk == 0 || nnn == 0) {
      *emptyq = 1;
      return;
    }
    if (*depth == 0) *strips = (m > 2 * mmm) | ((k > 2 * kkk) << 1) | ((n > 2 * nnn) << 2);
    (*depth)++;
    m = mmm;
    k = kkk;
    n = nnn;
    if (*depth > 8) break;
  }
}

static char dimcls(int d) {
  return d < 16 ? 'a' : d < 54 ? 'b' : d < 64 ? 'c' : d == 64 ? 'd' : d < 128 ? 'e' : d < 256 ? 'f' : d < 512 ? 'g' : d < 1024 ? 'h' : 'i';
}
static char modcls(int d) { return d % 64 == 0 ? '0' : d % 64 == 1 ? '1' : d % 64 == 63 ? '9' : 'x'; }

static void gen_mul(opcase_t *c, rng_t *r, int maxdim) {
  int v = c->op->variant;
  int cutoff = 0, k = 0, clear = 1;
  int accumulate = (v == V_ADDMUL_NAIVE || v == V_ADDMUL_M4RM || v == V_ADDMUL || v == V_ADDSQR || v == V_ADDMUL_MP);
  if (v == V_MUL || v == V_ADDMUL || v == V_SQR || v == V_ADDSQR || v == V_MUL_MP || v == V_ADDMUL_MP)
    cutoff = CUTOFFS[rng_int(r, 0, (int)(sizeof CUTOFFS / sizeof CUTOFFS[0]) - 1)];
  if (v == V_MUL_M4RM || v == V_ADDMUL_M4RM || v == V__MUL_M4RM) k = KS[rng_int(r, 0, (int)(sizeof KS / sizeof KS[0]) - 1)];
  if (v == V__MUL_NAIVE || v == V__MUL_VA || v == V__MUL_M4RM) {
    clear = rng_int(r, 0, 1);
    accumulate = !clear;
  }
  int ce = eff_cutoff2(cutoff, GC.strassen_cutoff);            /* aims the shapes */
  int ce_here = eff_cutoff2(cutoff, __M4RI_STRASSEN_MUL_CUTOFF); /* labels the regime in this build */
  int sp[32], nsp = 0;
  int q = (4 * ce + 2) / 3;
  sp[nsp++] = q - 1;
  sp[nsp++] = q;
  sp[nsp++] = q + 1;
  sp[nsp++] = 2 * ce - 1;
  sp[nsp++] = 2 * ce;
  sp[nsp++] = 2 * ce + 1;
  sp[nsp++] = 127;
  sp[nsp++] = 128;
  sp[nsp++] = 129;
  sp[nsp++] = q + (128 - q) / 2;
  sp[nsp++] = 3 * ce;
  sp[nsp++] = 4 * ce + 5;
  sp[nsp++] = (8 * ce + 2) / 3 + 1;
  sp[nsp++] = GC.mul_block - 1;
  sp[nsp++] = GC.mul_block;
  sp[nsp++] = GC.mul_block + 1;
  sp[nsp++] = 2 * GC.mul_block + 3;
  int m, l, n;
  if (v == V_SQR || v == V_ADDSQR) {
    m = l = n = gen_dim_sp(r, sp, nsp, maxdim);
  } else {
    m = gen_dim_sp(r, sp, nsp, maxdim);
    l = gen_dim_sp(r, sp, nsp, maxdim);
    n = gen_dim_sp(r, sp, nsp, maxdim);
    if (rng_chance(r, 1, 5)) m = l = n = gen_dim_sp(r, sp, nsp, maxdim); /* cubic shapes reach the deepest recursion */
    int t = rng_int(r, 0, 19);
    if (t == 0) n = rng_int(r, 1, 53);
    if (t == 1) m = rng_int(r, 1, 15);
    if (t == 2) l = rng_int(r, 1, 70);
  }
  if (v == V_DJB) {
    if (m > 300) m = rng_int(r, 1, 300);
    if (l > 300) l = rng_int(r, 1, 300);
  }
  /* B far wider than the L2-derived table budget (more than 2 * L2/64 words): the automatic k of the Four-Russians product starts
   * below zero there; affordable for the smallest cache triple only (65 537+ columns), few rows, automatic k */
  if ((v == V_MUL_M4RM || v == V_ADDMUL_M4RM || v == V_MUL || v == V_ADDMUL) && maxdim >= 200 && GC.l3 <= 131072 && rng_chance(r, 1, 90)) {
    m = rng_int(r, 16, 40);
    l = rng_int(r, 64, 90);
    n = 65537 + rng_int(r, 0, 3000);
    k = 0;
    hx_tag("mul_B_beyond_l2");
  }
  int pa = gen_pat(r), pb = gen_pat(r);
  /* both factors as differently shaped views anchored at the same cell of one matrix (M[0:m,0:l] * M[0:l,0:n]): distinct objects with
   * the same data pointer - must NOT be mistaken for the squaring case */
  int shared = (v == V_MUL || v == V_ADDMUL || v == V_MUL_M4RM || v == V_ADDMUL_M4RM || v == V_MUL_NAIVE || v == V_ADDMUL_NAIVE) && !(c->op->flags & OPF_NOWIN) &&
               rng_chance(r, 1, 12);
  if (shared) {
    int um = m > l ? m : l, un = l > n ? l : n;
    c->shared_union = gen_mat(r, um, un, pa);
    c->shared_slot[0] = 1;
    c->shared_slot[1] = 2;
    c->in[1] = rm_sub(c->shared_union, 0, 0, m, l);
    c->in[2] = rm_sub(c->shared_union, 0, 0, l, n);
    pb = pa;
    hx_tag("shared-parent");
  } else
  c->in[1] = gen_mat(r, m, l, pa);
  if (shared) {
  } else if (v == V_SQR || v == V_ADDSQR) {
    c->same_as[2] = 1;
    pb = pa;
  } else if (v == V__MUL_NAIVE) {
    rm_t *B = gen_mat(r, l, n, pb);
    c->in[2] = rm_transpose(B); /* the routine takes B pre-transposed */
    c->plc[2] = PL_OWN;         /* its callers always hand it a freshly transposed (owned) matrix */
    rm_free(B);
  } else
    c->in[2] = gen_mat(r, l, n, pb);
  int need_c = accumulate || v == V__MUL_NAIVE || v == V__MUL_VA || v == V__MUL_M4RM || v == V_DJB;
  /* the accumulate wrappers that document / handle "C may be NULL" (C is then the zero matrix): result must be A*B */
  if ((v == V_ADDMUL || v == V_ADDSQR || v == V_ADDMUL_MP || v == V_ADDMUL_M4RM) && rng_chance(r, 1, 8)) need_c = 0;
  if (v == V_DJB)
    c->in[0] = rm_new(m, n); /* zeroed target */
  else if (need_c || (!accumulate && rng_chance(r, 3, 5)))
    c->in[0] = gen_mat(r, m, n, accumulate ? gen_pat(r) : PAT_DENSE);
  c->ip[0] = cutoff;
  c->ip[1] = k;
  c->ip[2] = clear;
  c->ip[3] = accumulate;
  c->overwr[0] = !accumulate && v != V_DJB;
  /* regime label */
  const char *reg = "cubic";
  int depth = 0, emptyq = 0, strips = 0;
  if (v == V_MUL || v == V_ADDMUL || v == V_SQR || v == V_ADDSQR || v == V_MUL_MP || v == V_ADDMUL_MP) {
    strassen_regime(m, l, n, ce_here, &depth, &emptyq, &strips);
    if (emptyq)
      reg = "emptyquad";
    else if (depth > 0)
      reg = "strassen";
    else
      reg = (n < 54 || m < 16) ? "cubic" : "m4rm";
  } else if (v == V_MUL_M4RM || v == V_ADDMUL_M4RM || v == V__MUL_M4RM)
    reg = (n < 54 || m < 16) ? "cubic" : "m4rm";
  else if (v == V_DJB)
    reg = "djb";
  snprintf(c->pcls, sizeof c->pcls, "%s", reg);
  snprintf(c->desc, sizeof c->desc, "m=%d l=%d n=%d A=%s B=%s C=%s cutoff=%d k=%d clear=%d depth=%d strips=%d", m, l, n, pat_name(pa), pat_name(pb),
           c->in[0] ? "given" : "NULL", cutoff, k, clear, depth, strips);
  hx_cls("%s:%s:d%d:s%d:%c%c%c%c%c%c:%s:%s:%s", c->op->name, reg, depth, strips, dimcls(m), modcls(m), dimcls(l), modcls(l), dimcls(n), modcls(n),
         pat_name(pa), pat_name(pb), c->in[0] ? "C" : "N");
  hx_tag("%s", reg);
  if (depth) hx_tag("strassen_depth=%d", depth);
  if (strips) hx_tag("strips=%d", strips);
  if (v == V_SQR || v == V_ADDSQR) hx_tag("squaring");
  c->nontrivial = (m > 1 && l > 1 && n > 1); /* product != 0 is added by the check */
}

extern void hx_djb_free(void *z);

static void run_mul(opcase_t *c) {
  int v = c->op->variant;
  mzd_t *C = c->o[0] ? c->o[0]->M : NULL;
  mzd_t *A = c->o[1]->M, *B = c->o[2]->M;
  int cutoff = (int)c->ip[0], k = (int)c->ip[1], clear = (int)c->ip[2];
  switch (v) {
  case V_MUL_NAIVE: c->ret = mzd_mul_naive(C, A, B); break;
  case V_ADDMUL_NAIVE: c->ret = mzd_addmul_naive(C, A, B); break;
  case V__MUL_NAIVE: c->ret = _mzd_mul_naive(C, A, B, clear); break;
  case V__MUL_VA: c->ret = _mzd_mul_va(C, A, B, clear); break;
  case V_MUL_M4RM: c->ret = mzd_mul_m4rm(C, A, B, k); break;
  case V_ADDMUL_M4RM: c->ret = mzd_addmul_m4rm(C, A, B, k); break;
  case V__MUL_M4RM: c->ret = _mzd_mul_m4rm(C, A, B, k, clear); break;
  case V_MUL:
  case V_SQR: c->ret = mzd_mul(C, A, B, cutoff); break;
  case V_ADDMUL:
  case V_ADDSQR: c->ret = mzd_addmul(C, A, B, cutoff); break;
#if __M4RI_HAVE_OPENMP
  case V_MUL_MP: c->ret = mzd_mul_mp(C, A, B, cutoff); break;
  case V_ADDMUL_MP: c->ret = mzd_addmul_mp(C, A, B, cutoff); break;
#endif
  case V_DJB: {
    mzd_t *Ac = mzd_copy(NULL, A);
    djb_t *z = djb_compile(Ac);
    djb_apply_mzd(z, C, B);
    c->iret[0] = z->length;
    hx_djb_free(z);
    mzd_free(Ac);
    c->ret = C;
    break;
  }
  default: hx_die("run_mul: variant %d not available in this build", v);
  }
}

static void check_mul(opcase_t *c) {
  int v = c->op->variant;
  const rm_t *A = INV(c, 1), *Bv = INV(c, 2);
  rm_t *B = (v == V__MUL_NAIVE) ? rm_transpose(Bv) : rm_copy(Bv);
  rm_t *P = rm_mul(A, B);
  if (rm_is_zero(P)) c->nontrivial = 0;
  rm_t *E = P;
  if (c->ip[3] && c->in[0]) {
    E = rm_add(P, c->in[0]);
    rm_free(P);
  }
  if (c->o[0] && c->ret != c->o[0]->M) opcase_fail(c, "wrong-return", "returned pointer is not the supplied destination");
  opcase_expect(c, c->ret, E, "product");
  rm_free(E);
  rm_free(B);
}

#define MULOP(nm, var, fl)                                                                                                                          \
  { nm, "mul", {R_RW, R_RO, R_RO, R_NONE}, fl, var, gen_mul, run_mul, check_mul, NULL }
const op_t OPS_MUL[] = {
    MULOP("mzd_mul_naive", V_MUL_NAIVE, 0),
    MULOP("mzd_addmul_naive", V_ADDMUL_NAIVE, 0),
    MULOP("_mzd_mul_naive", V__MUL_NAIVE, 0),
    MULOP("_mzd_mul_va", V__MUL_VA, 0),
    MULOP("mzd_mul_m4rm", V_MUL_M4RM, 0),
    MULOP("mzd_addmul_m4rm", V_ADDMUL_M4RM, 0),
    MULOP("_mzd_mul_m4rm", V__MUL_M4RM, 0),
    MULOP("mzd_mul", V_MUL, 0),
    MULOP("mzd_addmul", V_ADDMUL, 0),
    MULOP("mzd_mul:sqr", V_SQR, 0),
    MULOP("mzd_addmul:sqr", V_ADDSQR, 0),
    MULOP("mzd_mul_mp", V_MUL_MP, OPF_OMP),
    MULOP("mzd_addmul_mp", V_ADDMUL_MP, OPF_OMP),
    MULOP("djb_apply_mzd", V_DJB, OPF_NOWIN),
};
const int NOPS_MUL = sizeof OPS_MUL / sizeof OPS_MUL[0];
