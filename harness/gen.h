/* Deterministic generators: own PRNG (xoshiro256**), shapes, bit patterns, rank profiles. */
#ifndef VERIF_GEN_H
#define VERIF_GEN_H
#include "ref.h"
#include <stdint.h>

typedef struct {
  uint64_t s[4];
} rng_t;
void rng_seed(rng_t *r, uint64_t a, uint64_t b, uint64_t c);
uint64_t rng_u64(rng_t *r);
int rng_int(rng_t *r, int lo, int hi); /* inclusive */
int rng_chance(rng_t *r, int num, int den);
int rng_pick(rng_t *r, const int *v, int n);

/* edge-biased dimension in [1,maxd] */
int gen_dim(rng_t *r, int maxd);
extern int GEN_MINDIM; /* when > 0, dimensions below it are folded into [GEN_MINDIM, maxd] */
extern int GEN_WIDE;   /* when set (and maxd > 600): dimensions are either <= 100 or > 512 */
/* dimension from special list (filtered to [1,maxd]) with probability 1/2, else gen_dim */
int gen_dim_sp(rng_t *r, const int *sp, int nsp, int maxd);

enum {
  PAT_DENSE = 0,
  PAT_SPARSE1,
  PAT_SPARSE2,
  PAT_ZERO,
  PAT_IDENT,
  PAT_SINGLE,
  PAT_ONES,
  PAT_BAND,
  PAT_LOWRANK,
  PAT_STRIPE,
  PAT_N
};
const char *pat_name(int pat);
int gen_pat(rng_t *r); /* weighted choice */
void gen_fill(rng_t *r, rm_t *A, int pat);
rm_t *gen_mat(rng_t *r, int m, int n, int pat);

/* rank profile kinds */
enum { RP_RANDOM = 0, RP_CONTIG, RP_GAPPED, RP_SKIPWORD, RP_LASTWORD, RP_ZERO, RP_FULL, RP_ONE, RP_N };
const char *rp_name(int k);
/* matrix with prescribed rank profile. pivots (size>=min(m,n)) receives profile,
 * *rank the rank; kind<0 -> random kind; sparse: 0 dense factors, 1 sparse */
rm_t *gen_rankprof(rng_t *r, int m, int n, int kind, int sparse, int *pivots, int *rank, int *kind_out);
rm_t *gen_invertible(rng_t *r, int n);
/* unit diagonal, named triangle random (density by pat dense/sparse), other triangle random junk */
rm_t *gen_tri_junk(rng_t *r, int n, int lower, int sparse);
/* random LAPACK-style permutation values: i <= p[i] < n ; kind 0 identity,1 single swap,2 random,3 last */
void gen_perm(rng_t *r, int *p, int len, int n, int kind);

#endif
