/* mon: one engine, many monitors.  mon <monitor> --seed S --from i --to j [options]
 * Output protocol (stdout, tab separated):
 *   I <build info>                       once
 *   B <idx> <keyprefix> <description>    before the library is entered for case idx
 *   F <idx> <key> <message>              a violation observed in case idx
 *   E <idx> <nfail> <nontrivial> <class> <tags>   case finished
 *   N <note>
 * A case is a pure function of (monitor, options, seed, idx). */
#include "mon.h"
#include <stdio.h>
#include <stdlib.h>
#include <string.h>
#include <unistd.h>
#ifdef HAVE_VALGRIND
#include <valgrind/memcheck.h>
#include <valgrind/valgrind.h>
#endif

extern void aw_init(void);
#if __M4RI_ENABLE_MMC
extern mmb_t m4ri_mmc_cache[];
#endif

uint64_t mon_hash(const char *s) {
  uint64_t h = 1469598103934665603ULL;
  for (; s && *s; s++) h = (h ^ (unsigned char)*s) * 1099511628211ULL;
  return h;
}
void mon_case_rng(rng_t *r, const mon_args_t *a, const char *salt, long idx) { rng_seed(r, a->seed, mon_hash(a->monitor) ^ mon_hash(salt), (uint64_t)idx); }

static int in_list(const char *list, const char *name) {
  if (!list) return 1;
  size_t n = strlen(name);
  const char *p = list;
  while (*p) {
    const char *q = strchr(p, ',');
    size_t l = q ? (size_t)(q - p) : strlen(p);
    if (l == n && strncmp(p, name, n) == 0) return 1;
    if (!q) break;
    p = q + 1;
  }
  return 0;
}
int mon_select_ops(const mon_args_t *a, const op_t **out, int cap) {
  int n = 0;
  for (int i = 0; i < NOPS && n < cap; i++) {
    if (a->ops) {
      if (!in_list(a->ops, OPS[i].name)) continue;
    } else if (a->fam && !in_list(a->fam, OPS[i].fam))
      continue;
    out[n++] = &OPS[i];
  }
  return n;
}

long mon_live_effective(void) {
  long live = aw_live_blocks();
#if __M4RI_ENABLE_MMC
  for (int i = 0; i < __M4RI_MMC_NBLOCKS; i++)
    if (m4ri_mmc_cache[i].size) live--;
#endif
  return live;
}

/* matrix headers live in a static pool when the header cache is compiled in: a leaked header is invisible to the
 * block balance there, so the pool's own count (hook, guard M4RI_VERIF) is compared as well */
extern void mzd_verif_header_cache_stats(int *blocks, int *slots_in_use);
long mon_headers_in_use(void) {
  int b = 0, u = 0;
  mzd_verif_header_cache_stats(&b, &u);
  return u;
}

static long vg_errors(void) {
#ifdef HAVE_VALGRIND
  return (long)VALGRIND_COUNT_ERRORS;
#else
  return 0;
#endif
}

static void begin_case(opcase_t *c, long idx) {
  char plc[160], kp[400];
  opcase_placements(c, plc, sizeof plc);
  snprintf(kp, sizeof kp, "%s|%s|%s", c->op->name, plc, c->pcls);
  hx_begin(idx, kp, "%s", c->desc);
}

/* ------------------------------------------------------------------ func: model oracle on owned operands */
int mon_func(const mon_args_t *a) {
  const op_t *sel[160];
  int n = mon_select_ops(a, sel, 160);
  if (!n) hx_die("no operations selected");
  for (long idx = a->from; idx < a->to; idx++) {
    rng_t r;
    mon_case_rng(&r, a, "func", idx);
    const op_t *op = sel[idx % n];
    opcase_t c;
    hx_reset(idx);
    opcase_init(&c, op);
    if (a->arg && !strncmp(a->arg, "grid:", 5)) {
      /* bounded-exhaustive shapes: every (nrows, ncols) in [1,N]^2 for every selected op */
      int N = atoi(a->arg + 5);
      long g = idx / n;
      c.ip[6] = 1 + g % N;
      c.ip[7] = 1 + (g / N) % N;
    } else if (a->arg && !strncmp(a->arg, "colpairs:", 9)) {
      /* every pair of columns of a W-word matrix (forced through ip[4], ip[5]; 1-based) */
      int W = atoi(a->arg + 9), NC = 64 * W;
      long g = idx / n;
      c.ip[7] = NC;
      c.ip[4] = 1 + g % NC;
      c.ip[5] = 1 + (g / NC) % NC;
      static const int RWS[] = {1, 3, 4, 5, 9};
      c.ip[6] = RWS[(g % NC + (g / NC) % NC + g / ((long)NC * NC)) % 5];
    }
    op->gen(&c, &r, a->maxdim);
    long live0 = mon_live_effective(), vg0 = vg_errors(), hdr0 = mon_headers_in_use();
    opcase_place(&c, &r, a->policy);
    begin_case(&c, idx);
    opcase_run(&c);
    opcase_check(&c);
    HX.nontrivial = c.nontrivial;
    opcase_cleanup(&c);
    if (a->balance) {
      long live1 = mon_live_effective(), hdr1 = mon_headers_in_use();
      if (live1 != live0) {
        char key[256];
        snprintf(key, sizeof key, "%s|own|%s|leak", op->name, c.pcls);
        hx_fail(key, "allocation balance: %ld library blocks live before the call, %ld after everything was freed :: %s", live0, live1, c.desc);
      } else if (hdr1 != hdr0) {
        char key[256];
        snprintf(key, sizeof key, "%s|own|%s|leak", op->name, c.pcls);
        hx_fail(key, "header pool: %ld matrix headers in use before the call, %ld after everything was freed :: %s", hdr0, hdr1, c.desc);
      }
    }
    long vg1 = vg_errors();
    if (vg1 != vg0) {
      char key[256];
      snprintf(key, sizeof key, "%s|own|%s|memcheck", op->name, c.pcls);
      hx_fail(key, "valgrind memcheck reported %ld new error(s) during this case :: %s", vg1 - vg0, c.desc);
    }
    hx_end();
  }
  return 0;
}

/* ------------------------------------------------------------------ views (C09) */
static int run_variant(const opcase_t *src, rng_t *r, int policy, uint64_t *dig, int forcekind) {
  opcase_t d;
  opcase_clone_inputs(&d, src);
  if (forcekind >= 0)
    for (int i = 0; i < MAXSLOT; i++) d.plc[i] = forcekind;
  opcase_place(&d, r, policy);
  opcase_run(&d);
  *dig = opcase_digest(&d);
  opcase_cleanup(&d);
  return 0;
}
int mon_views(const mon_args_t *a) {
  const op_t *sel[160];
  int n = mon_select_ops(a, sel, 160);
  if (!n) hx_die("no operations selected");
  for (long idx = a->from; idx < a->to; idx++) {
    rng_t r;
    mon_case_rng(&r, a, "views", idx);
    const op_t *op = sel[idx % n];
    opcase_t c;
    hx_reset(idx);
    opcase_init(&c, op);
    op->gen(&c, &r, a->maxdim);
    if (op->flags & OPF_NOWIN) { /* low-level interface: windows are outside its contract */
      opcase_cleanup(&c);
      hx_begin(idx, "skip", "%s skipped (no window contract)", op->name);
      hx_end();
      continue;
    }
    /* make sure at least one operand is a window */
    int nslots = 0, slots[MAXSLOT];
    for (int i = 0; i < MAXSLOT; i++)
      if (op->role[i] != R_NONE && c.same_as[i] < 0 && c.plc[i] < 0 && c.in[i] && c.in[i]->m && c.in[i]->n) slots[nslots++] = i;
    if (nslots) {
      int s = slots[rng_int(&r, 0, nslots - 1)];
      c.plc[s] = rng_chance(&r, 1, 2) ? PL_WIN_EVEN : PL_WIN_ODD;
    }
    long live0 = mon_live_effective(), hdr0 = mon_headers_in_use();
    opcase_place(&c, &r, 1);
    begin_case(&c, idx);
    opcase_run(&c);
    opcase_check(&c);
    uint64_t d1 = opcase_digest(&c), d2 = 0, d3 = 0;
    int nt = 0;
    for (int i = 0; i < MAXSLOT; i++)
      if (c.o[i] && c.o[i]->parent && !c.o[i]->zero_surround) nt = 1;
    HX.nontrivial = nt;
    {
      char plc[160];
      opcase_placements_detail(&c, plc, sizeof plc);
      hx_cls("%s", plc);
      for (int i = 0; i < MAXSLOT; i++)
        if (c.o[i] && c.same_as[i] < 0) hx_tag("%s@%d=%s", op->name, i, c.o[i]->cls);
    }
    /* same call on standalone copies of the viewed blocks */
    rng_t r2;
    mon_case_rng(&r2, a, "views-standalone", idx);
    run_variant(&c, &r2, 0, &d2, PL_OWN);
    if (d1 != d2) opcase_fail(&c, "standalone-differs", "outputs on views differ from the same call on standalone copies");
    /* same call with another placement and another random surround */
    mon_case_rng(&r2, a, "views-surround", idx);
    {
      opcase_t d;
      opcase_clone_inputs(&d, &c);
      opcase_place(&d, &r2, 1);
      opcase_run(&d);
      d3 = opcase_digest(&d);
      if (d3 != d1) opcase_fail(&c, "surround-dependent", "outputs change with the parent content around the views / the placement");
      opcase_generic_checks(&d);
      opcase_cleanup(&d);
    }
    opcase_cleanup(&c);
    long live1 = mon_live_effective(), hdr1 = mon_headers_in_use();
    if (a->balance && live1 != live0) {
      char key[256];
      snprintf(key, sizeof key, "%s|win|%s|leak", op->name, c.pcls);
      hx_fail(key, "allocation balance: %ld blocks live before, %ld after :: %s", live0, live1, c.desc);
    } else if (a->balance && hdr1 != hdr0) {
      char key[256];
      snprintf(key, sizeof key, "%s|win|%s|leak", op->name, c.pcls);
      hx_fail(key, "header pool: %ld matrix headers in use before, %ld after :: %s", hdr0, hdr1, c.desc);
    }
    hx_end();
  }
  return 0;
}

/* ------------------------------------------------------------------ pure (C10): history / heap differential */
static void scribble_block_cache(int pat, rng_t *r) {
#if __M4RI_ENABLE_MMC
  for (int i = 0; i < __M4RI_MMC_NBLOCKS; i++) {
    if (!m4ri_mmc_cache[i].size || !m4ri_mmc_cache[i].data) continue;
    unsigned char *b = m4ri_mmc_cache[i].data;
    size_t sz = m4ri_mmc_cache[i].size;
    if (pat == 4)
      for (size_t k = 0; k < sz; k++) b[k] = (unsigned char)rng_u64(r);
    else
      memset(b, pat == 1 ? 0x00 : pat == 2 ? 0xFF : 0xA5, sz);
  }
#else
  (void)pat;
  (void)r;
#endif
}
static void dirty_destinations(opcase_t *d, rng_t *r) {
  for (int i = 0; i < MAXSLOT; i++)
    if (d->overwr[i] && d->in[i]) gen_fill(r, d->in[i], rng_chance(r, 1, 3) ? PAT_ONES : PAT_DENSE);
}
int mon_pure(const mon_args_t *a) {
  const op_t *sel[160];
  int n = mon_select_ops(a, sel, 160);
  if (!n) hx_die("no operations selected");
  static const char *ENVN[] = {"fresh", "after-same-op", "poison-ff", "poison-a5+cache", "poison-rand+cache", "after-other-ops", "poison-00"};
  for (long idx = a->from; idx < a->to; idx++) {
    rng_t r;
    mon_case_rng(&r, a, "pure", idx);
    const op_t *op = sel[idx % n];
    opcase_t c;
    hx_reset(idx);
    opcase_init(&c, op);
    op->gen(&c, &r, a->maxdim);
    /* baseline: empty block cache, no poison */
    AW_poison = 0;
    m4ri_mmc_cleanup();
    long cnt0 = AW_total_calls_get();
    opcase_place(&c, &r, a->policy);
    begin_case(&c, idx);
    opcase_run(&c);
    opcase_check(&c);
    uint64_t base = opcase_digest(&c);
    long nalloc = AW_total_calls_get() - cnt0;
    HX.nontrivial = nalloc > 2; /* the op allocated temporaries beyond its operands */
    hx_tag("allocs=%ld", nalloc > 20 ? 20 : nalloc);
    int nenv = 7;
    for (int e = 1; e < nenv; e++) {
      rng_t re;
      mon_case_rng(&re, a, ENVN[e], idx);
      AW_poison = 0;
      switch (e) {
      case 1: { /* run the same op 1..3 times first: its temporaries are now dirty blocks of the right sizes */
        int k = rng_int(&re, 1, 3);
        for (int t = 0; t < k; t++) {
          uint64_t dd;
          run_variant(&c, &re, 0, &dd, PL_OWN);
        }
        break;
      }
      case 2: AW_poison = 2; break;
      case 3:
        AW_poison = 3;
        scribble_block_cache(3, &re);
        break;
      case 4:
        AW_poison = 4;
        scribble_block_cache(4, &re);
        break;
      case 5: { /* a random prefix of other library calls */
        int k = rng_int(&re, 1, 4);
        for (int t = 0; t < k; t++) {
          const op_t *o2 = sel[rng_int(&re, 0, n - 1)];
          opcase_t p;
          char savecls[512], savetags[512];
          memcpy(savecls, HX.cls, sizeof savecls);
          memcpy(savetags, HX.tags, sizeof savetags);
          opcase_init(&p, o2);
          o2->gen(&p, &re, a->maxdim < 200 ? a->maxdim : 200);
          memcpy(HX.cls, savecls, sizeof savecls);
          memcpy(HX.tags, savetags, sizeof savetags);
          opcase_place(&p, &re, 0);
          opcase_run(&p);
          opcase_cleanup(&p);
        }
        break;
      }
      case 6:
        AW_poison = 1;
        scribble_block_cache(1, &re);
        break;
      }
      opcase_t d;
      opcase_clone_inputs(&d, &c);
      dirty_destinations(&d, &re);
      opcase_place(&d, &re, a->policy);
      opcase_run(&d);
      uint64_t dg = opcase_digest(&d);
      if (dg != base) {
        char kind[64];
        snprintf(kind, sizeof kind, "env-differs:%s", ENVN[e]);
        opcase_fail(&c, kind, "outputs in environment '%s' differ from a fresh run with the same operand values", ENVN[e]);
      }
      /* padding and model are checked in every environment */
      {
        int nf0 = HX.nfail;
        opcase_check(&d);
        if (HX.nfail != nf0) hx_note("previous failure(s) observed in environment %s", ENVN[e]);
      }
      opcase_cleanup(&d);
      AW_poison = 0;
    }
    opcase_cleanup(&c);
    hx_end();
  }
  AW_poison = 0;
  return 0;
}

/* ------------------------------------------------------------------ digest (C12) */
int mon_digest(const mon_args_t *a) {
  const op_t *sel[160], *sel0[160];
  int n0 = mon_select_ops(a, sel0, 160), n = 0;
  /* the case list must be the same in every build: ops that only exist with OpenMP are C16's business */
  for (int i = 0; i < n0; i++)
    if (!(sel0[i]->flags & OPF_OMP)) sel[n++] = sel0[i];
  if (!n) hx_die("no operations selected");
  extern int GEN_AIM_BOOST;
  GEN_AIM_BOOST = 1;
  for (long idx = a->from; idx < a->to; idx++) {
    rng_t r;
    mon_case_rng(&r, a, "digest", idx);
    const op_t *op = sel[idx % n];
    opcase_t c;
    hx_reset(idx);
    /* generators aim at the regime boundaries of the small and of the host triple alternately,
       independently of the build this engine was compiled for: inputs are identical everywhere */
    gc_set((int)((idx / n) & 1));
    opcase_init(&c, op);
    op->gen(&c, &r, a->maxdim);
    opcase_place(&c, &r, 0);
    begin_case(&c, idx);
    opcase_run(&c);
    opcase_check(&c); /* names the culprit: model comparison in this build */
    uint64_t dg = opcase_canon(&c);
    HX.nontrivial = c.nontrivial;
    /* the same operands under other admissible tuning parameters */
    for (int t = 0; t < a->reps; t++) {
      rng_t rp;
      mon_case_rng(&rp, a, t ? "reparam2" : "reparam1", idx);
      opcase_t d;
      opcase_clone_inputs(&d, &c);
      if (op->reparam) op->reparam(&d, &rp);
      opcase_place(&d, &rp, 0);
      opcase_run(&d);
      uint64_t d2 = opcase_canon(&d);
      if (d2 != dg)
        opcase_fail(&c, "param-dependent", "canonical output changes with the tuning parameters: ip=(%ld,%ld,%ld) vs (%ld,%ld,%ld)", c.ip[0], c.ip[1], c.ip[2],
                    d.ip[0], d.ip[1], d.ip[2]);
      opcase_cleanup(&d);
    }
    hx_tag("digest=%016llx", (unsigned long long)dg);
    opcase_cleanup(&c);
    hx_end();
  }
  gc_default();
  return 0;
}

/* ------------------------------------------------------------------ main */
static void usage(void) {
  fprintf(stderr, "usage: mon <monitor> --seed S --from i --to j [--tier quick|thorough] [--maxdim N] [--fam f,..] [--ops o,..] [--policy own|win]\n");
  exit(2);
}
int main(int argc, char **argv) {
  if (argc < 2) usage();
  mon_args_t a;
  memset(&a, 0, sizeof a);
  a.monitor = argv[1];
  a.seed = 1;
  a.to = 1;
  a.maxdim = 300;
  a.balance = 1;
  a.nthreads = 0;
  a.reps = 1;
  a.dir = ".";
  for (int i = 2; i < argc; i++) {
    const char *o = argv[i], *v = (i + 1 < argc) ? argv[i + 1] : NULL;
#define OPT(name) (strcmp(o, name) == 0 && v && (i++, 1))
    if (OPT("--seed")) a.seed = strtoull(v, NULL, 10);
    else if (OPT("--from")) a.from = atol(v);
    else if (OPT("--to")) a.to = atol(v);
    else if (OPT("--tier")) a.tier = strcmp(v, "thorough") == 0;
    else if (OPT("--maxdim")) a.maxdim = atoi(v);
    else if (OPT("--mindim")) GEN_MINDIM = atoi(v);
    else if (OPT("--wide")) GEN_WIDE = atoi(v);
    else if (OPT("--fam")) a.fam = v;
    else if (OPT("--ops")) a.ops = v;
    else if (OPT("--arg")) a.arg = v;
    else if (OPT("--dir")) a.dir = v;
    else if (OPT("--policy")) a.policy = strcmp(v, "win") == 0;
    else if (OPT("--threads")) a.nthreads = atoi(v);
    else if (OPT("--reps")) a.reps = atoi(v);
    else if (OPT("--balance")) a.balance = atoi(v);
    else if (OPT("--poison")) a.poison = atoi(v);
    else if (OPT("--fail-at")) a.fail_at = atol(v);
    else {
      fprintf(stderr, "unknown option %s\n", o);
      usage();
    }
  }
  setvbuf(stdout, NULL, _IOLBF, 0);
  aw_init();
  aw_track(1);
  ops_init();
  HX.prop = a.monitor;
  HX.seed = a.seed;
  HX.tier = a.tier;
  printf("I\t%s\n", hx_build_info());
  AW_poison = a.poison;
  int rc;
  if (!strcmp(a.monitor, "func")) rc = mon_func(&a);
  else if (!strcmp(a.monitor, "views")) rc = mon_views(&a);
  else if (!strcmp(a.monitor, "pure")) rc = mon_pure(&a);
  else if (!strcmp(a.monitor, "digest")) rc = mon_digest(&a);
  else if (!strcmp(a.monitor, "alloc")) rc = mon_alloc(&a);
  else if (!strcmp(a.monitor, "illdim")) rc = mon_illdim(&a);
  else if (!strcmp(a.monitor, "threads")) rc = mon_threads(&a);
  else if (!strcmp(a.monitor, "io")) rc = mon_io(&a);
  else if (!strcmp(a.monitor, "gray")) rc = mon_gray(&a);
  else if (!strcmp(a.monitor, "allocfail")) rc = mon_allocfail(&a);
  else if (!strcmp(a.monitor, "listops")) {
    for (int i = 0; i < NOPS; i++) printf("N\top %s fam=%s flags=%u\n", OPS[i].name, OPS[i].fam, OPS[i].flags);
    rc = 0;
  } else
    usage();
  printf("N\tdone\n");
  fflush(stdout);
  /* leave without running the library destructor twice under sanitizers */
  return rc;
}
