/* The operation table: every public entry point as (name, operand roles, generator, runner, model oracle). */
#ifndef VERIF_OPS_H
#define VERIF_OPS_H
#include "hx.h"

enum { R_NONE = 0, R_RO, R_RW, R_OUT };
#define MAXSLOT 4
#define OPF_OMP 1       /* only exists in OpenMP builds */
#define OPF_NOWIN 2     /* operands never windows (low-level interface with documented alignment assumptions) */
#define OPF_NONUNIQUE 4 /* raw output not unique across configurations: use canon digest for cross-build comparison */
#define OPF_OBS 8       /* pure observer */
#define OPF_NOC12 16    /* not part of C12's canonical output list */

typedef struct opcase opcase_t;
typedef struct op {
  const char *name;
  const char *fam;
  int role[MAXSLOT];
  unsigned flags;
  int variant;
  void (*gen)(opcase_t *, rng_t *, int maxdim);
  void (*run)(opcase_t *);
  void (*check)(opcase_t *);
  uint64_t (*canon)(opcase_t *); /* NULL: bit-exact digest is configuration independent */
  void (*reparam)(opcase_t *, rng_t *); /* re-draw tuning parameters (k, cutoff, threshold) only; may be NULL */
} op_t;

struct opcase {
  const op_t *op;
  rm_t *in[MAXSLOT]; /* input values; R_OUT slot with NULL value => NULL destination */
  opnd_t *o[MAXSLOT];
  int same_as[MAXSLOT]; /* -1 or the slot this one aliases */
  int plc[MAXSLOT];     /* requested placement kind, -1 = by policy */
  int overwr[MAXSLOT];  /* prior content of this slot is irrelevant (pure destination) */
  long ip[8];
  double dp[2];
  int *pv[2];
  int pvlen[2];
  /* results */
  mzd_t *ret;
  long iret[4];
  int niret;
  mzp_t *P, *Q;
  void *aux; /* op private */
  /* two read-only operands taken as differently shaped views anchored at the SAME cell of ONE parent (e.g. M[0:m,0:l] and M[0:l,0:n]):
   * shared_union holds the value of the covering block, shared_slot the two slots; host owns the parent */
  rm_t *shared_union;
  int shared_slot[2];
  opnd_t *host;
  char pcls[96]; /* parameter / regime class (part of violation key, and of distinctness class) */
  char desc[256];
  int ran;
  int nontrivial;
};

/* constants used by the GENERATORS to aim shapes at regime boundaries. Default: this build's values;
 * the cross-configuration monitor (C12) overrides them so that inputs are identical in every build. */
typedef struct {
  int mul_block, strassen_cutoff;
  long ple_cutoff, l1, l3;
} genconst_t;
extern genconst_t GC;
void gc_default(void);
void gc_set(int which); /* 0 = small triple, 1 = host triple */

extern const op_t *OPS;
extern int NOPS;
void ops_init(void);
const op_t *op_find(const char *name);

void opcase_init(opcase_t *c, const op_t *op);
/* policy: 0 all owned, 1 random windows for every slot (respecting OPF_NOWIN) */
void opcase_place(opcase_t *c, rng_t *r, int policy);
void opcase_run(opcase_t *c); /* snapshot + run */
/* op oracle + generic post-conditions (RO unchanged, outside-of-view unchanged, padding zero).
 * Failures are reported with hx_fail using keys  op|placements|pcls|kind  */
void opcase_check(opcase_t *c);
void opcase_generic_checks(opcase_t *c);
uint64_t opcase_digest(opcase_t *c); /* all outputs, bit exact */
uint64_t opcase_canon(opcase_t *c);  /* configuration independent outputs */
void opcase_cleanup(opcase_t *c);
void opcase_fail(opcase_t *c, const char *kind, const char *fmt, ...);
void opcase_placements(opcase_t *c, char *buf, size_t cap);
void opcase_placements_detail(opcase_t *c, char *buf, size_t cap);
/* deep copy of inputs/params into a fresh case (for differential runs) */
void opcase_clone_inputs(opcase_t *dst, const opcase_t *src);
/* compare a library matrix with the model value; reports wrong-result */
int opcase_expect(opcase_t *c, const mzd_t *got, const rm_t *exp, const char *what);
/* value of input slot i (following aliases) */
static inline const rm_t *INV(const opcase_t *c, int i) { return c->in[c->same_as[i] >= 0 ? c->same_as[i] : i]; }

#endif
