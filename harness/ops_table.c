#include "ops.h"
#include <stdlib.h>
#include <string.h>
extern const op_t OPS_MUL[], OPS_ELIM[], OPS_MOVE[], OPS_RC[], OPS_OBS[];
extern const int NOPS_MUL, NOPS_ELIM, NOPS_MOVE, NOPS_RC, NOPS_OBS;
static op_t ALL[160];
static void reparam_generic(opcase_t *c, rng_t *r);
const op_t *OPS = ALL;
int NOPS = 0;
static void add(const op_t *t, int n) {
  for (int i = 0; i < n; i++) {
#if !__M4RI_HAVE_OPENMP
    if (t[i].flags & OPF_OMP) continue;
#endif
    ALL[NOPS] = t[i];
    ALL[NOPS].reparam = reparam_generic;
    NOPS++;
  }
}
/* re-draw tuning parameters only (table parameter k, recursion cutoff, switching threshold) */
static const int RP_CUT[] = {0, 1, 63, 64, 65, 100, 128, 192, 256, 512, 1000, 2048, 4096};
static void reparam_generic(opcase_t *c, rng_t *r) {
  const char *f = c->op->fam, *n = c->op->name;
  int cut = RP_CUT[rng_int(r, 0, 12)];
  if (!strcmp(f, "mul")) {
    if (!strncmp(n, "mzd_mul_mp", 10) || !strncmp(n, "mzd_addmul_mp", 13) || !strcmp(n, "mzd_mul") || !strcmp(n, "mzd_addmul") || strstr(n, ":sqr"))
      c->ip[0] = cut;
    else if (strstr(n, "m4rm"))
      c->ip[1] = rng_int(r, -1, 17);
  } else if (!strcmp(f, "ech")) {
    c->ip[1] = rng_int(r, 0, 10);
    if (!strcmp(n, "_mzd_echelonize_m4ri")) {
      static const double TH[] = {0.0, 0.05, 0.15, 0.5, 1.0, 2.0};
      c->ip[2] = rng_int(r, 0, 1);
      c->dp[0] = TH[rng_int(r, 0, 5)];
    }
  } else if (!strcmp(f, "ple")) {
    static const int RK[] = {0, 2, 3, 4, 5, 6, 7, 8};
    c->ip[0] = cut;
    c->ip[1] = RK[rng_int(r, 0, 7)];
  } else if (!strcmp(f, "trsm") || !strcmp(f, "solve") || !strcmp(f, "kernel")) {
    c->ip[0] = cut;
  } else if (!strcmp(f, "inv")) {
    if (!strcmp(n, "mzd_inv_m4ri")) c->ip[0] = rng_int(r, 0, 16);
    if (!strcmp(n, "mzd_trtri_upper_russian")) c->ip[0] = rng_int(r, 0, 12);
  }
}
void ops_init(void) {
  if (NOPS) return;
  gc_default();
  add(OPS_MUL, NOPS_MUL);
  add(OPS_ELIM, NOPS_ELIM);
  add(OPS_MOVE, NOPS_MOVE);
  add(OPS_RC, NOPS_RC);
  add(OPS_OBS, NOPS_OBS);
}

genconst_t GC;
void gc_default(void) {
  GC.mul_block = __M4RI_MUL_BLOCKSIZE;
  GC.strassen_cutoff = __M4RI_STRASSEN_MUL_CUTOFF;
  GC.ple_cutoff = __M4RI_PLE_CUTOFF;
  GC.l1 = __M4RI_CPU_L1_CACHE;
  GC.l3 = __M4RI_CPU_L3_CACHE;
}
void gc_set(int which) {
  if (which == 0) {
    GC.mul_block = 256;
    GC.strassen_cutoff = 512;
    GC.ple_cutoff = 8192;
    GC.l1 = 4096;
    GC.l3 = 65536;
  } else {
    GC.mul_block = 2048;
    GC.strassen_cutoff = 4096;
    GC.ple_cutoff = 524288;
    GC.l1 = 32768;
    GC.l3 = 56623104;
  }
}
