#include "ops.h"
#include <stdlib.h>
#include <string.h>
extern const op_t OPS_MUL[], OPS_ELIM[], OPS_MOVE[], OPS_RC[], OPS_OBS[];
extern const int NOPS_MUL, NOPS_ELIM, NOPS_MOVE, NOPS_RC, NOPS_OBS;
static op_t ALL[160];
const op_t *OPS = ALL;
int NOPS = 0;
static void add(const op_t *t, int n) {
  for (int i = 0; i < n; i++) {
#if !__M4RI_HAVE_OPENMP
    if (t[i].flags & OPF_OMP) continue;
#endif
    ALL[NOPS++] = t[i];
  }
}
void ops_init(void) {
  if (NOPS) return;
  add(OPS_MUL, NOPS_MUL);
  add(OPS_ELIM, NOPS_ELIM);
  add(OPS_MOVE, NOPS_MOVE);
  add(OPS_RC, NOPS_RC);
  add(OPS_OBS, NOPS_OBS);
}
