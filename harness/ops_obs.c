/* Observers (C17): equal, cmp, is_zero, find_pivot, first_zero_row, read/write bit. */
#include "ops.h"
#include <stdio.h>
#include <stdlib.h>
#include <string.h>

enum { O_EQUAL, O_CMP, O_IS_ZERO, O_FIND_PIVOT, O_FIRST_ZERO_ROW, O_RW_BIT };
static char dimcls(int d) { return d < 8 ? 'a' : d < 64 ? 'b' : d == 64 ? 'c' : d <= 128 ? 'd' : d < 600 ? 'e' : 'f'; }

/* a position of the requested class: 0 first word, 1 middle word, 2 last (partial) word, 3 last row, 4 random */
static void pos_class(rng_t *r, int m, int n, int cls, int *pi, int *pj) {
  int i = rng_int(r, 0, m - 1), j;
  int w = (n + 63) / 64;
  switch (cls) {
  case 0: j = rng_int(r, 0, n < 64 ? n - 1 : 63); break;
  case 1: j = w > 2 ? 64 * rng_int(r, 1, w - 2) + rng_int(r, 0, 63) : rng_int(r, 0, n - 1); break;
  case 2: j = rng_int(r, 64 * (w - 1), n - 1); break;
  case 3:
    i = m - 1;
    j = rng_chance(r, 1, 2) ? n - 1 : rng_int(r, 0, n - 1);
    break;
  default: j = rng_int(r, 0, n - 1);
  }
  *pi = i;
  *pj = j;
}
static const char *PCN[] = {"firstword", "midword", "lastword", "lastrow", "random"};

static void gen_obs(opcase_t *c, rng_t *r, int maxdim) {
  int v = c->op->variant;
  int m = gen_dim(r, maxdim), n = gen_dim(r, maxdim);
  char eb[128] = "";
  snprintf(c->pcls, sizeof c->pcls, "-");
  int p = rng_chance(r, 2, 3) ? PAT_DENSE : gen_pat(r);
  switch (v) {
  case O_EQUAL: {
    c->in[0] = gen_mat(r, m, n, p);
    int mode = rng_int(r, 0, 9);
    if (mode < 5) { /* exactly one bit differs */
      int cls = rng_int(r, 0, 4), i, j;
      pos_class(r, m, n, cls, &i, &j);
      c->in[1] = rm_copy(c->in[0]);
      RM(c->in[1], i, j) ^= 1;
      snprintf(c->pcls, sizeof c->pcls, "onebit-%s", PCN[cls]);
      snprintf(eb, sizeof eb, "flip=(%d,%d)", i, j);
      c->nontrivial = 1;
    } else if (mode < 7) {
      c->in[1] = rm_copy(c->in[0]);
      snprintf(c->pcls, sizeof c->pcls, "equal");
    } else if (mode < 8) {
      c->same_as[1] = 0;
      snprintf(c->pcls, sizeof c->pcls, "sameobject");
    } else if (mode < 9) {
      int m2 = m + rng_int(r, 0, 1), n2 = n + (m2 == m ? 1 : rng_int(r, 0, 1));
      c->in[1] = rm_new(m2, n2);
      for (int i = 0; i < m; i++) memcpy(c->in[1]->e + (size_t)i * n2, c->in[0]->e + (size_t)i * n, n);
      snprintf(c->pcls, sizeof c->pcls, "dimsdiffer");
    } else {
      c->in[1] = gen_mat(r, m, n, gen_pat(r));
      snprintf(c->pcls, sizeof c->pcls, "random");
    }
    break;
  }
  case O_CMP: {
    c->in[0] = gen_mat(r, m, n, p);
    int mode = rng_int(r, 0, 9);
    if (mode < 6) { /* chain differing in one bit each */
      int cls = rng_int(r, 0, 4), i, j;
      pos_class(r, m, n, cls, &i, &j);
      c->in[1] = rm_copy(c->in[0]);
      RM(c->in[1], i, j) ^= 1;
      c->in[2] = rm_copy(c->in[1]);
      int cls2 = rng_int(r, 0, 4);
      pos_class(r, m, n, cls2, &i, &j);
      RM(c->in[2], i, j) ^= 1;
      snprintf(c->pcls, sizeof c->pcls, "chain-%s", PCN[cls]);
      c->nontrivial = 1;
    } else if (mode < 8) {
      c->in[1] = rm_copy(c->in[0]);
      c->in[2] = gen_mat(r, m, n, PAT_DENSE);
      snprintf(c->pcls, sizeof c->pcls, "equalpair");
    } else if (mode < 9) {
      c->in[1] = gen_mat(r, m + rng_int(r, 0, 1), n + rng_int(r, 0, 1), PAT_DENSE);
      c->in[2] = gen_mat(r, m, n + rng_int(r, 0, 2), PAT_DENSE);
      snprintf(c->pcls, sizeof c->pcls, "dims");
    } else {
      c->in[1] = gen_mat(r, m, n, gen_pat(r));
      c->in[2] = gen_mat(r, m, n, gen_pat(r));
      snprintf(c->pcls, sizeof c->pcls, "random");
    }
    break;
  }
  case O_IS_ZERO:
  case O_FIRST_ZERO_ROW: {
    int mode = rng_int(r, 0, 9);
    if (mode < 6) {
      int cls = rng_int(r, 0, 4), i, j;
      pos_class(r, m, n, cls, &i, &j);
      c->in[0] = rm_new(m, n);
      RM(c->in[0], i, j) = 1;
      snprintf(c->pcls, sizeof c->pcls, "single-%s", PCN[cls]);
      c->nontrivial = 1;
    } else if (mode < 8) {
      c->in[0] = rm_new(m, n);
      snprintf(c->pcls, sizeof c->pcls, "zero");
    } else {
      c->in[0] = gen_mat(r, m, n, gen_pat(r));
      /* zero tail rows */
      int z = rng_int(r, 0, m);
      for (int i = m - z; i < m; i++) memset(c->in[0]->e + (size_t)i * n, 0, n);
      snprintf(c->pcls, sizeof c->pcls, "zerotail");
    }
    break;
  }
  case O_FIND_PIVOT: {
    int mode = rng_int(r, 0, 9);
    int sr = rng_int(r, 0, m - 1), sc;
    int t = rng_int(r, 0, 4);
    sc = t == 0 ? n - 1 : t == 1 ? (n > 64 ? rng_int(r, n - 64, n - 1) : rng_int(r, 0, n - 1)) : t == 2 ? 64 * ((n - 1) / 64) : rng_int(r, 0, n - 1);
    if (sc < 0) sc = 0;
    if (mode < 4) {
      /* only entries outside the region, plus (sometimes) one entry inside it in the last word */
      c->in[0] = gen_mat(r, m, n, PAT_DENSE);
      for (int i = sr; i < m; i++)
        for (int j = sc; j < n; j++) RM(c->in[0], i, j) = 0;
      if (rng_chance(r, 2, 3)) {
        int i = rng_int(r, sr, m - 1), j = rng_chance(r, 1, 2) ? rng_int(r, 64 * ((n - 1) / 64) > sc ? 64 * ((n - 1) / 64) : sc, n - 1) : rng_int(r, sc, n - 1);
        RM(c->in[0], i, j) = 1;
        snprintf(c->pcls, sizeof c->pcls, "oneinregion");
        c->nontrivial = 1;
      } else
        snprintf(c->pcls, sizeof c->pcls, "regionzero");
    } else if (mode < 8) {
      /* the region is zero up to some word tw; in word tw several rows have entries with different lowest bits
         (the search must compare rows, it may not stop at the first row that has a bit at the start offset) */
      c->in[0] = gen_mat(r, m, n, PAT_DENSE);
      for (int i = sr; i < m; i++)
        for (int j = sc; j < n; j++) RM(c->in[0], i, j) = 0;
      int w0 = sc / 64, w1 = (n - 1) / 64, tw = rng_int(r, w0, w1);
      int lo = tw * 64 > sc ? tw * 64 : sc, hi = (tw * 64 + 63) < n - 1 ? tw * 64 + 63 : n - 1;
      int nrows_set = rng_int(r, 1, m - sr < 6 ? m - sr : 6);
      for (int t = 0; t < nrows_set; t++) {
        int i = rng_int(r, sr, m - 1), nb = rng_int(r, 1, 3);
        for (int b = 0; b < nb; b++) RM(c->in[0], i, rng_chance(r, 1, 3) ? lo + (sc % 64 < hi - lo ? sc % 64 : 0) : rng_int(r, lo, hi)) = 1;
      }
      /* later words may hold anything */
      for (int i = sr; i < m; i++)
        for (int j = hi + 1; j < n; j++) RM(c->in[0], i, j) = (rng_u64(r) & 3) == 0;
      snprintf(c->pcls, sizeof c->pcls, "%s", tw == w0 ? "firstword" : tw == w1 ? "lastword" : "midword");
      c->nontrivial = 1;
    } else {
      c->in[0] = gen_mat(r, m, n, gen_pat(r));
      snprintf(c->pcls, sizeof c->pcls, "pattern");
    }
    c->ip[0] = sr;
    c->ip[1] = sc;
    snprintf(eb, sizeof eb, "start=(%d,%d)", sr, sc);
    hx_cls("%s", n - sc < 64 ? "tail<64" : "tail>=64");
    break;
  }
  case O_RW_BIT: {
    c->in[0] = gen_mat(r, m, n, p);
    c->ip[0] = (long)(rng_u64(r) >> 1);
    c->ip[1] = rng_int(r, 1, 64);
    break;
  }
  }
  snprintf(c->desc, sizeof c->desc, "m=%d n=%d %s %s", m, n, c->pcls, eb);
  hx_cls("%s:%s:%c%c%d", c->op->name, c->pcls, dimcls(m), dimcls(n), n % 64 == 0 ? 0 : n % 64 == 1 ? 1 : n % 64 == 63 ? 9 : 5);
}

static int sgn(int x) { return x < 0 ? -1 : x > 0 ? 1 : 0; }

static void run_obs(opcase_t *c) {
  int v = c->op->variant;
  mzd_t *A = c->o[0]->M;
  switch (v) {
  case O_EQUAL:
    c->iret[0] = mzd_equal(A, c->o[1]->M);
    c->iret[1] = mzd_equal(c->o[1]->M, A);
    c->niret = 2;
    break;
  case O_CMP: {
    mzd_t *X[3] = {A, c->o[1]->M, c->o[2]->M};
    /* store 9 results packed base 3 */
    long pack = 0;
    for (int i = 2; i >= 0; i--)
      for (int j = 2; j >= 0; j--) pack = pack * 3 + (sgn(mzd_cmp(X[i], X[j])) + 1);
    c->iret[0] = pack;
    c->niret = 1;
    break;
  }
  case O_IS_ZERO:
    c->iret[0] = mzd_is_zero(A);
    c->niret = 1;
    break;
  case O_FIRST_ZERO_ROW:
    c->iret[0] = mzd_first_zero_row(A);
    c->niret = 1;
    break;
  case O_FIND_PIVOT: {
    rci_t rr = -7, cc = -7;
    c->iret[0] = mzd_find_pivot(A, (rci_t)c->ip[0], (rci_t)c->ip[1], &rr, &cc);
    c->iret[1] = rr;
    c->iret[2] = cc;
    c->niret = 3;
    break;
  }
  case O_RW_BIT: {
    rng_t r;
    rng_seed(&r, (uint64_t)c->ip[0], 5, 5);
    rm_t *E = rm_copy(INV(c, 0));
    int bad = 0;
    for (int k = 0; k < c->ip[1]; k++) {
      int i = rng_int(&r, 0, E->m - 1), j = rng_chance(&r, 1, 3) ? E->n - 1 : rng_int(&r, 0, E->n - 1), b = (int)(rng_u64(&r) & 1);
      mzd_write_bit(A, i, j, b);
      RM(E, i, j) = (uint8_t)b;
      if (mzd_read_bit(A, i, j) != b) bad++;
    }
    for (int i = 0; i < E->m; i++)
      for (int j = 0; j < E->n; j++)
        if (mzd_read_bit(A, i, j) != RM(E, i, j)) bad++;
    c->iret[0] = bad;
    c->niret = 1;
    c->aux = E;
    break;
  }
  }
}

static void check_obs(opcase_t *c) {
  int v = c->op->variant;
  const rm_t *A = INV(c, 0);
  switch (v) {
  case O_EQUAL: {
    int e = rm_eq(A, INV(c, 1));
    if ((c->iret[0] != 0) != e) opcase_fail(c, "wrong-return", "mzd_equal(A,B)=%ld, model says %d", c->iret[0], e);
    if ((c->iret[1] != 0) != e) opcase_fail(c, "wrong-return", "mzd_equal(B,A)=%ld, model says %d", c->iret[1], e);
    break;
  }
  case O_CMP: {
    const rm_t *X[3] = {A, INV(c, 1), INV(c, 2)};
    int s[3][3];
    long pack = c->iret[0];
    for (int i = 0; i < 3; i++)
      for (int j = 0; j < 3; j++) {
        s[i][j] = (int)(pack % 3) - 1;
        pack /= 3;
      }
    for (int i = 0; i < 3; i++)
      for (int j = 0; j < 3; j++) {
        int e = rm_eq(X[i], X[j]);
        if ((s[i][j] == 0) != e) opcase_fail(c, "wrong-return", "mzd_cmp(X%d,X%d)=%d but equality in the model is %d", i, j, s[i][j], e);
        if (s[i][j] != -s[j][i]) opcase_fail(c, "not-antisymmetric", "cmp(X%d,X%d)=%d, cmp(X%d,X%d)=%d", i, j, s[i][j], j, i, s[j][i]);
      }
    for (int i = 0; i < 3; i++)
      for (int j = 0; j < 3; j++)
        for (int k = 0; k < 3; k++)
          if (s[i][j] <= 0 && s[j][k] <= 0 && s[i][k] > 0) opcase_fail(c, "not-transitive", "X%d<=X%d<=X%d but cmp(X%d,X%d)=%d", i, j, k, i, k, s[i][k]);
    break;
  }
  case O_IS_ZERO: {
    int z = rm_is_zero(A);
    if ((c->iret[0] != 0) != z) opcase_fail(c, "wrong-return", "mzd_is_zero=%ld, model %d", c->iret[0], z);
    break;
  }
  case O_FIRST_ZERO_ROW: {
    int e = 0;
    for (int i = 0; i < A->m; i++)
      for (int j = 0; j < A->n; j++)
        if (RM(A, i, j)) {
          e = i + 1;
          break;
        }
    if (c->iret[0] != e) opcase_fail(c, "wrong-return", "mzd_first_zero_row=%ld, model %d", c->iret[0], e);
    break;
  }
  case O_FIND_PIVOT: {
    int sr = (int)c->ip[0], sc = (int)c->ip[1];
    int mincol = -1;
    for (int j = sc; j < A->n && mincol < 0; j++)
      for (int i = sr; i < A->m; i++)
        if (RM(A, i, j)) {
          mincol = j;
          break;
        }
    if (mincol < 0) {
      if (c->iret[0] != 0) opcase_fail(c, "wrong-return", "mzd_find_pivot found (%ld,%ld) in a zero region", c->iret[1], c->iret[2]);
    } else {
      if (c->iret[0] == 0)
        opcase_fail(c, "wrong-return", "mzd_find_pivot reports failure but column %d of the region is non-zero", mincol);
      else if (c->iret[2] != mincol)
        opcase_fail(c, "wrong-return", "pivot column %ld, left-most non-zero column of the region is %d", c->iret[2], mincol);
      else if (c->iret[1] < sr || c->iret[1] >= A->m || !RM(A, c->iret[1], c->iret[2]))
        opcase_fail(c, "wrong-return", "pivot (%ld,%ld) is not a one inside the region", c->iret[1], c->iret[2]);
    }
    break;
  }
  case O_RW_BIT: {
    if (c->iret[0]) opcase_fail(c, "wrong-return", "%ld read-after-write mismatches", c->iret[0]);
    rm_t *E = c->aux;
    if (E) {
      opcase_expect(c, c->o[0]->M, E, "matrix after writes");
      rm_free(E);
      c->aux = NULL;
    }
    break;
  }
  }
}

#define OOP(nm, r0, r1, r2, var)                                                                                                                     \
  { nm, "obs", {r0, r1, r2, R_NONE}, OPF_OBS, var, gen_obs, run_obs, check_obs, NULL }
const op_t OPS_OBS[] = {
    OOP("mzd_equal", R_RO, R_RO, 0, O_EQUAL),
    OOP("mzd_cmp", R_RO, R_RO, R_RO, O_CMP),
    OOP("mzd_is_zero", R_RO, 0, 0, O_IS_ZERO),
    OOP("mzd_find_pivot", R_RO, 0, 0, O_FIND_PIVOT),
    OOP("mzd_first_zero_row", R_RO, 0, 0, O_FIRST_ZERO_ROW),
    OOP("mzd_rw_bit", R_RW, 0, 0, O_RW_BIT),
};
const int NOPS_OBS = sizeof OPS_OBS / sizeof OPS_OBS[0];
