/* Independent GF(2) reference model: one byte per entry, textbook algorithms.
 * Shares no code, accessor or bit trick with m4ri.  The only knowledge of m4ri it
 * uses is the documented storage layout (data, rowstride, bit col%64 of word col/64),
 * in rm_from_mzd / rm_to_mzd (implemented in conv.c, which includes the m4ri headers
 * only for the struct definition). */
#ifndef VERIF_REF_H
#define VERIF_REF_H
#include <stdint.h>
#include <stddef.h>

typedef struct {
  int m, n;
  uint8_t *e; /* e[i*n + j] in {0,1} */
} rm_t;

rm_t *rm_new(int m, int n);
void rm_free(rm_t *A);
rm_t *rm_copy(const rm_t *A);
int rm_eq(const rm_t *A, const rm_t *B);
/* first differing position, -1 if equal (dims must match) */
long rm_first_diff(const rm_t *A, const rm_t *B);
long rm_count_diff(const rm_t *A, const rm_t *B);
int rm_is_zero(const rm_t *A);
long rm_weight(const rm_t *A);
#define RM(A, i, j) ((A)->e[(size_t)(i) * (A)->n + (j)])

rm_t *rm_mul(const rm_t *A, const rm_t *B);
rm_t *rm_add(const rm_t *A, const rm_t *B);
rm_t *rm_transpose(const rm_t *A);
rm_t *rm_identity(int n);
rm_t *rm_sub(const rm_t *A, int r0, int c0, int r1, int c1);
rm_t *rm_concat(const rm_t *A, const rm_t *B);
rm_t *rm_stack(const rm_t *A, const rm_t *B);
/* reduced row echelon form (new matrix); pivots[] (size >= min(m,n)) receives pivot
 * columns, returns rank */
rm_t *rm_rref(const rm_t *A, int *pivots, int *rank);
int rm_rank(const rm_t *A);
/* is E a row echelon form: pivot columns strictly increasing, zero rows last, entries
 * below pivot zero (entries left of pivot zero by definition of pivot). returns number
 * of nonzero rows or -1 */
int rm_is_ref(const rm_t *E);
/* is fully reduced */
int rm_is_rref(const rm_t *E);
void rm_swap_rows(rm_t *A, int a, int b);
void rm_swap_cols(rm_t *A, int a, int b);
void rm_swap_cols_rows(rm_t *A, int a, int b, int r0, int r1);
/* unit triangular extraction: lower=1 -> strict lower part + unit diag; else upper */
rm_t *rm_unit_tri(const rm_t *T, int lower);
uint64_t rm_digest(const rm_t *A);

#endif
