/* Row/column primitives and permutation application (C13). slot 0 = M (in/out); combine: 0=C 1=A 2=B */
#include "ops.h"
#include <stdio.h>
#include <stdlib.h>
#include <string.h>

enum {
  RC_ROW_SWAP,
  RC_COL_SWAP,
  RC_COL_SWAP_IN_ROWS,
  RC_ROW_ADD,
  RC_ROW_ADD_OFFSET,
  RC_ROW_CLEAR_OFFSET,
  RC_XOR_BITS,
  RC_CLEAR_BITS,
  RC_READ_BITS,
  RC_COMBINE,
  RC_COMBINE_EVEN,
  RC_COMBINE_INPLACE,
  RC_P_LEFT,
  RC_P_LEFT_TRANS,
  RC_P_RIGHT,
  RC_P_RIGHT_TRANS,
  RC_P_RIGHT_CAPPED,
  RC_P_RIGHT_TRANS_CAPPED,
  RC_P_RIGHT_TRANS_TRI,
  RC_P_RELATIONS
};

static char dimcls(int d) { return d < 8 ? 'a' : d < 64 ? 'b' : d == 64 ? 'c' : d <= 128 ? 'd' : d <= 192 ? 'e' : d < 600 ? 'f' : 'g'; }
static int colpos(rng_t *r, int n) {
  /* word-boundary biased column */
  int c = rng_int(r, 0, 5);
  if (c == 0) return n - 1;
  if (c == 1) return 0;
  if (c == 2 && n > 64) return 64 * rng_int(r, 1, (n - 1) / 64) - rng_int(r, 0, 1);
  if (c == 3 && n > 64) {
    int x = 64 * rng_int(r, 0, (n - 1) / 64) + 63;
    return x < n ? x : n - 1;
  }
  return rng_int(r, 0, n - 1);
}

static void gen_rc(opcase_t *c, rng_t *r, int maxdim) {
  int v = c->op->variant;
  int m = c->ip[6] ? (int)c->ip[6] : gen_dim(r, maxdim), n = c->ip[7] ? (int)c->ip[7] : gen_dim(r, maxdim);
  char eb[128] = "";
  int p = rng_chance(r, 3, 4) ? PAT_DENSE : gen_pat(r);
  snprintf(c->pcls, sizeof c->pcls, "-");
  switch (v) {
  case RC_ROW_SWAP:
  case RC_ROW_ADD:
    if (v == RC_ROW_ADD && m < 2) m = 2; /* "adding one row to another": two different rows */
    c->in[0] = gen_mat(r, m, n, p);
    c->ip[0] = rng_int(r, 0, m - 1);
    c->ip[1] = rng_chance(r, 1, 8) ? c->ip[0] : rng_int(r, 0, m - 1);
    if (v == RC_ROW_ADD && c->ip[1] == c->ip[0] && m > 1) c->ip[1] = (c->ip[0] + 1) % m;
    snprintf(eb, sizeof eb, "a=%ld b=%ld", c->ip[0], c->ip[1]);
    break;
  case RC_COL_SWAP:
  case RC_COL_SWAP_IN_ROWS:
    c->in[0] = gen_mat(r, m, n, p);
    /* ip[4]/ip[5] may be forced by the monitor (pair enumeration) */
    c->ip[0] = c->ip[4] ? c->ip[4] - 1 : colpos(r, n);
    c->ip[1] = c->ip[5] ? c->ip[5] - 1 : (rng_chance(r, 1, 10) ? c->ip[0] : colpos(r, n));
    c->ip[2] = 0;
    c->ip[3] = m;
    if (v == RC_COL_SWAP_IN_ROWS) {
      c->ip[2] = rng_int(r, 0, m);
      c->ip[3] = rng_chance(r, 1, 8) ? c->ip[2] : rng_int(r, (int)c->ip[2], m);
    }
    snprintf(c->pcls, sizeof c->pcls, "%s", c->ip[0] / 64 == c->ip[1] / 64 ? "sameword" : "diffword");
    snprintf(eb, sizeof eb, "cola=%ld colb=%ld rows=[%ld,%ld)", c->ip[0], c->ip[1], c->ip[2], c->ip[3]);
    break;
  case RC_ROW_ADD_OFFSET:
  case RC_ROW_CLEAR_OFFSET:
    if (v == RC_ROW_ADD_OFFSET && m < 2) m = 2; /* two different rows */
    c->in[0] = gen_mat(r, m, n, p);
    c->ip[0] = rng_int(r, 0, m - 1);
    c->ip[1] = (m > 1) ? (c->ip[0] + rng_int(r, 1, m - 1)) % m : 0;
    c->ip[2] = rng_chance(r, 1, 6) ? 0 : colpos(r, n);
    snprintf(c->pcls, sizeof c->pcls, "%s", c->ip[2] == 0 ? "off0" : c->ip[2] < 64 ? (c->ip[2] % 64 ? "off<64" : "off0") : (c->ip[2] % 64 ? "off>=64" : "offword"));
    snprintf(eb, sizeof eb, "row=%ld src=%ld coloffset=%ld", c->ip[0], c->ip[1], c->ip[2]);
    break;
  case RC_XOR_BITS:
  case RC_CLEAR_BITS:
  case RC_READ_BITS: {
    c->in[0] = gen_mat(r, m, n, p);
    int nb = rng_int(r, 1, n < 64 ? n : 64);
    if (rng_chance(r, 1, 4)) nb = n < 64 ? n : 64;
    int y = rng_int(r, 0, n - nb);
    if (rng_chance(r, 1, 3)) y = n - nb;
    c->ip[0] = rng_int(r, 0, m - 1);
    c->ip[1] = y;
    c->ip[2] = nb;
    uint64_t val = rng_u64(r);
    if (nb < 64) val &= (((uint64_t)1 << nb) - 1);
    c->ip[3] = (long)val;
    snprintf(c->pcls, sizeof c->pcls, "%s", (y % 64) + nb > 64 ? "spill" : "oneword");
    snprintf(eb, sizeof eb, "x=%ld y=%d n=%d", c->ip[0], y, nb);
    break;
  }
  case RC_COMBINE:
  case RC_COMBINE_EVEN:
  case RC_COMBINE_INPLACE: {
    /* c_row[c_sb:] = a_row[a_sb:] + b_row[b_sb:]: the three matrices may start at different words (different
       16-byte parity of the row pointers) as long as the same number of words remains and the last words match */
    int wrem = rng_chance(r, 1, 2) ? rng_int(r, 1, 5) : rng_int(r, 1, 14), res = rng_chance(r, 1, 4) ? 64 : rng_int(r, 1, 64);
    int samesb = rng_chance(r, 1, 3);
    int a_sb = rng_int(r, 0, 3), b_sb = samesb ? a_sb : rng_int(r, 0, 3), c_sb = samesb ? a_sb : rng_int(r, 0, 3);
    int m2 = gen_dim(r, 20), m3 = gen_dim(r, 20);
    if (m > 40) m = gen_dim(r, 40);
    c->in[1] = gen_mat(r, m2, 64 * (a_sb + wrem - 1) + res, p);
    c->in[2] = gen_mat(r, m3, 64 * (b_sb + wrem - 1) + res, PAT_DENSE);
    c->ip[1] = rng_int(r, 0, m2 - 1);
    c->ip[2] = rng_int(r, 0, m3 - 1);
    c->ip[3] = a_sb;
    c->ip[4] = b_sb;
    if (v == RC_COMBINE_INPLACE || (v == RC_COMBINE && rng_chance(r, 1, 2))) {
      c->same_as[0] = 1;
      c->ip[0] = c->ip[1];
      c_sb = a_sb;
      snprintf(c->pcls, sizeof c->pcls, "inplace%s", a_sb == b_sb ? "" : "-sb");
    } else {
      c->in[0] = gen_mat(r, m, 64 * (c_sb + wrem - 1) + res, PAT_DENSE);
      c->ip[0] = rng_int(r, 0, m - 1);
      snprintf(c->pcls, sizeof c->pcls, "threeop%s", (a_sb == b_sb && a_sb == c_sb) ? "" : "-sb");
    }
    c->ip[5] = c_sb;
    n = 64 * (wrem - 1) + res;
    snprintf(eb, sizeof eb, "rows=%ld,%ld,%ld startblocks c=%d a=%d b=%d words=%d res=%d", c->ip[0], c->ip[1], c->ip[2], c_sb, a_sb, b_sb, wrem, res);
    hx_cls("w%d:p%d%d%d", wrem > 12 ? 12 : wrem, c_sb & 1, a_sb & 1, b_sb & 1);
    break;
  }
  case RC_P_LEFT:
  case RC_P_LEFT_TRANS:
  case RC_P_RIGHT:
  case RC_P_RIGHT_TRANS:
  case RC_P_RIGHT_CAPPED:
  case RC_P_RIGHT_TRANS_CAPPED:
  case RC_P_RIGHT_TRANS_TRI:
  case RC_P_RELATIONS: {
    if (v == RC_P_RELATIONS) n = m = (m < n ? m : n);
    if (v != RC_P_LEFT && v != RC_P_LEFT_TRANS && !c->ip[6] && rng_chance(r, 1, 3)) {
      /* heights around the strip height of the gather kernel */
      int w = (n + 63) / 64;
      int strip = (int)((GC.l1 >> 3) / w);
      if (strip < 1) strip = 1;
      m = strip * rng_int(r, 1, 2) + rng_int(r, -1, 2);
      if (m < 1) m = 1;
      if (m > 4 * maxdim) m = maxdim;
      if (v == RC_P_RELATIONS) m = n;
    }
    c->in[0] = gen_mat(r, m, n, p);
    int dim = (v == RC_P_LEFT || v == RC_P_LEFT_TRANS) ? m : n;
    int len = dim, kind = rng_int(r, 0, 5);
    if (v != RC_P_RIGHT_TRANS_TRI && v != RC_P_RELATIONS && rng_chance(r, 1, 4)) len = rng_int(r, 1, dim); /* shorter than the dimension */
    c->pv[0] = malloc(sizeof(int) * (len + 1));
    c->pvlen[0] = len;
    /* LAPACK swap form: i <= P[i].  For the left (row) application a pivot vector shorter than the number of rows may name
     * any row below i (xGETRF's ipiv on a tall matrix does) and the effect is just the row swaps; for the right application the
     * library builds an explicit permutation of `length` columns, so targets stay below the length there */
    if ((v == RC_P_LEFT || v == RC_P_LEFT_TRANS) && len < dim && rng_chance(r, 2, 3))
      gen_perm(r, c->pv[0], len, dim, kind > 3 ? 2 : kind);
    else
      gen_perm(r, c->pv[0], len, len, kind > 3 ? 2 : kind);
    c->ip[0] = 0;
    c->ip[1] = 0;
    if (v == RC_P_RIGHT_CAPPED || v == RC_P_RIGHT_TRANS_CAPPED) {
      c->ip[0] = rng_int(r, 0, m); /* start_row */
      /* start_col: unambiguous only for the transposed variant (ascending swaps from start_col on) */
      c->ip[1] = (v == RC_P_RIGHT_TRANS_CAPPED && rng_chance(r, 1, 2)) ? rng_int(r, 0, len) : 0;
    }
    snprintf(c->pcls, sizeof c->pcls, "%s", len < dim ? "short" : "full");
    snprintf(eb, sizeof eb, "len=%d permkind=%d start_row=%ld start_col=%ld", len, kind, c->ip[0], c->ip[1]);
    break;
  }
  }
  snprintf(c->desc, sizeof c->desc, "m=%d n=%d pat=%s %s", m, n, pat_name(p), eb);
  hx_cls("%s:%s:%c%c%d", c->op->name, c->pcls, dimcls(m), dimcls(n), n % 64 == 0 ? 0 : n % 64 == 1 ? 1 : n % 64 == 63 ? 9 : 5);
  c->nontrivial = (m > 1 || n > 1);
}

static mzp_t *mk_perm(opcase_t *c) {
  mzp_t *P = mzp_init(c->pvlen[0]);
  for (int i = 0; i < c->pvlen[0]; i++) P->values[i] = c->pv[0][i];
  return P;
}

static void run_rc(opcase_t *c) {
  int v = c->op->variant;
  mzd_t *M = c->o[0]->M;
  switch (v) {
  case RC_ROW_SWAP: mzd_row_swap(M, (rci_t)c->ip[0], (rci_t)c->ip[1]); break;
  case RC_COL_SWAP: mzd_col_swap(M, (rci_t)c->ip[0], (rci_t)c->ip[1]); break;
  case RC_COL_SWAP_IN_ROWS: mzd_col_swap_in_rows(M, (rci_t)c->ip[0], (rci_t)c->ip[1], (rci_t)c->ip[2], (rci_t)c->ip[3]); break;
  case RC_ROW_ADD: mzd_row_add(M, (rci_t)c->ip[0], (rci_t)c->ip[1]); break; /* (source, dest) */
  case RC_ROW_ADD_OFFSET: mzd_row_add_offset(M, (rci_t)c->ip[0], (rci_t)c->ip[1], (rci_t)c->ip[2]); break; /* (dst, src, off) */
  case RC_ROW_CLEAR_OFFSET: mzd_row_clear_offset(M, (rci_t)c->ip[0], (rci_t)c->ip[2]); break;
  case RC_XOR_BITS: mzd_xor_bits(M, (rci_t)c->ip[0], (rci_t)c->ip[1], (int)c->ip[2], (word)c->ip[3]); break;
  case RC_CLEAR_BITS: mzd_clear_bits(M, (rci_t)c->ip[0], (rci_t)c->ip[1], (int)c->ip[2]); break;
  case RC_READ_BITS:
    c->iret[0] = (long)mzd_read_bits(M, (rci_t)c->ip[0], (rci_t)c->ip[1], (int)c->ip[2]);
    c->iret[1] = mzd_read_bits_int(M, (rci_t)c->ip[0], (rci_t)c->ip[1], (int)(c->ip[2] > 16 ? 16 : c->ip[2]));
    c->niret = 2;
    break;
  case RC_COMBINE: mzd_combine(M, (rci_t)c->ip[0], c->ip[5], c->o[1]->M, (rci_t)c->ip[1], c->ip[3], c->o[2]->M, (rci_t)c->ip[2], c->ip[4]); break;
  case RC_COMBINE_EVEN: mzd_combine_even(M, (rci_t)c->ip[0], c->ip[5], c->o[1]->M, (rci_t)c->ip[1], c->ip[3], c->o[2]->M, (rci_t)c->ip[2], c->ip[4]); break;
  case RC_COMBINE_INPLACE: mzd_combine_even_in_place(M, (rci_t)c->ip[0], c->ip[5], c->o[2]->M, (rci_t)c->ip[2], c->ip[4]); break;
  default: {
    mzp_t *P = mk_perm(c);
    switch (v) {
    case RC_P_LEFT: mzd_apply_p_left(M, P); break;
    case RC_P_LEFT_TRANS: mzd_apply_p_left_trans(M, P); break;
    case RC_P_RIGHT: mzd_apply_p_right(M, P); break;
    case RC_P_RIGHT_TRANS: mzd_apply_p_right_trans(M, P); break;
    case RC_P_RIGHT_CAPPED: mzd_apply_p_right_even_capped(M, P, (rci_t)c->ip[0], (rci_t)c->ip[1]); break;
    case RC_P_RIGHT_TRANS_CAPPED: mzd_apply_p_right_trans_even_capped(M, P, (rci_t)c->ip[0], (rci_t)c->ip[1]); break;
    case RC_P_RIGHT_TRANS_TRI: mzd_apply_p_right_trans_tri(M, P); break;
    case RC_P_RELATIONS: {
      /* (1) X then X_trans restores, for left and right; (2) left and right multiply by the same permutation matrix */
      const rm_t *A0 = INV(c, 0);
      int n = A0->n;
      mzd_apply_p_left(M, P);
      mzd_apply_p_left_trans(M, P);
      opcase_expect(c, M, A0, "apply_p_left then apply_p_left_trans");
      mzd_apply_p_right(M, P);
      mzd_apply_p_right_trans(M, P);
      opcase_expect(c, M, A0, "apply_p_right then apply_p_right_trans");
      mzd_apply_p_left_trans(M, P);
      mzd_apply_p_left(M, P);
      opcase_expect(c, M, A0, "apply_p_left_trans then apply_p_left");
      /* explicit permutation matrix Pm: row swaps ascending on I */
      rm_t *Pm = rm_identity(n);
      rm_apply_p_rows_asc(Pm, c->pv[0], c->pvlen[0]);
      rm_t *PA = rm_mul(Pm, A0), *AP = rm_mul(A0, Pm);
      mzd_apply_p_left(M, P);
      opcase_expect(c, M, PA, "apply_p_left == Pm*A");
      rm_to_mzd(M, A0);
      mzd_apply_p_right(M, P);
      opcase_expect(c, M, AP, "apply_p_right == A*Pm");
      rm_free(Pm);
      rm_free(PA);
      rm_free(AP);
      break;
    }
    }
    /* the permutation is read-only */
    for (int i = 0; i < c->pvlen[0]; i++)
      if (P->values[i] != c->pv[0][i]) {
        opcase_fail(c, "operand-modified", "permutation entry %d changed", i);
        break;
      }
    mzp_free(P);
  }
  }
}

static void check_rc(opcase_t *c) {
  int v = c->op->variant;
  const rm_t *A0 = INV(c, 0);
  rm_t *E = rm_copy(A0);
  int n = A0->n, m = A0->m;
  switch (v) {
  case RC_ROW_SWAP: rm_swap_rows(E, (int)c->ip[0], (int)c->ip[1]); break;
  case RC_COL_SWAP:
  case RC_COL_SWAP_IN_ROWS: rm_swap_cols_rows(E, (int)c->ip[0], (int)c->ip[1], (int)c->ip[2], (int)c->ip[3]); break;
  case RC_ROW_ADD: /* dest += source */
    for (int j = 0; j < n; j++) RM(E, c->ip[1], j) ^= RM(A0, c->ip[0], j);
    break;
  case RC_ROW_ADD_OFFSET:
    for (int j = (int)c->ip[2]; j < n; j++) RM(E, c->ip[0], j) ^= RM(A0, c->ip[1], j);
    break;
  case RC_ROW_CLEAR_OFFSET:
    for (int j = (int)c->ip[2]; j < n; j++) RM(E, c->ip[0], j) = 0;
    break;
  case RC_XOR_BITS:
    for (int j = 0; j < c->ip[2]; j++) RM(E, c->ip[0], c->ip[1] + j) ^= (uint8_t)(((uint64_t)c->ip[3] >> j) & 1);
    break;
  case RC_CLEAR_BITS:
    for (int j = 0; j < c->ip[2]; j++) RM(E, c->ip[0], c->ip[1] + j) = 0;
    break;
  case RC_READ_BITS: {
    uint64_t exp = 0;
    for (int j = 0; j < c->ip[2]; j++) exp |= (uint64_t)RM(A0, c->ip[0], c->ip[1] + j) << j;
    if ((uint64_t)c->iret[0] != exp) opcase_fail(c, "wrong-return", "mzd_read_bits returned %lx expected %lx", (unsigned long)c->iret[0], (unsigned long)exp);
    int nb = c->ip[2] > 16 ? 16 : (int)c->ip[2];
    uint64_t e2 = exp & (((uint64_t)1 << nb) - 1);
    if ((uint64_t)c->iret[1] != e2) opcase_fail(c, "wrong-return", "mzd_read_bits_int returned %lx expected %lx", (unsigned long)c->iret[1], (unsigned long)e2);
    break;
  }
  case RC_COMBINE:
  case RC_COMBINE_EVEN:
  case RC_COMBINE_INPLACE: {
    const rm_t *A = INV(c, 1), *B = INV(c, 2);
    int cnt = A->n - 64 * (int)c->ip[3];
    for (int t = 0; t < cnt; t++) RM(E, c->ip[0], 64 * c->ip[5] + t) = RM(A, c->ip[1], 64 * c->ip[3] + t) ^ RM(B, c->ip[2], 64 * c->ip[4] + t);
    break;
  }
  case RC_P_LEFT: rm_apply_p_rows_asc(E, c->pv[0], c->pvlen[0] < m ? c->pvlen[0] : m); break;
  case RC_P_LEFT_TRANS: rm_apply_p_rows_desc(E, c->pv[0], c->pvlen[0] < m ? c->pvlen[0] : m); break;
  case RC_P_RIGHT: rm_apply_p_cols_desc(E, c->pv[0], c->pvlen[0] < n ? c->pvlen[0] : n); break;
  case RC_P_RIGHT_TRANS: rm_apply_p_cols_asc(E, c->pv[0], c->pvlen[0] < n ? c->pvlen[0] : n); break;
  case RC_P_RIGHT_CAPPED: {
    int len = c->pvlen[0] < n ? c->pvlen[0] : n;
    for (int i = len - 1; i >= 0; i--) rm_swap_cols_rows(E, i, c->pv[0][i], (int)c->ip[0], m);
    break;
  }
  case RC_P_RIGHT_TRANS_CAPPED: {
    int len = c->pvlen[0] < n ? c->pvlen[0] : n;
    for (int i = (int)c->ip[1]; i < len; i++) rm_swap_cols_rows(E, i, c->pv[0][i], (int)c->ip[0], m);
    break;
  }
  case RC_P_RIGHT_TRANS_TRI:
    /* swap i only on the rows above row i, ascending i */
    for (int i = 0; i < n; i++) rm_swap_cols_rows(E, i, c->pv[0][i], 0, i < m ? i : m);
    break;
  case RC_P_RELATIONS: {
    rm_t *Pm = rm_identity(n);
    rm_apply_p_rows_asc(Pm, c->pv[0], c->pvlen[0]);
    rm_t *AP = rm_mul(A0, Pm);
    rm_free(E);
    E = AP;
    rm_free(Pm);
    break;
  }
  }
  opcase_expect(c, c->o[0]->M, E, c->op->name);
  if (rm_eq(E, A0) && v != RC_READ_BITS) c->nontrivial = 0;
  rm_free(E);
}

#define RCOP(nm, r0, r1, r2, var)                                                                                                                    \
  { nm, "rowcol", {r0, r1, r2, R_NONE}, 0, var, gen_rc, run_rc, check_rc, NULL }
const op_t OPS_RC[] = {
    RCOP("mzd_row_swap", R_RW, 0, 0, RC_ROW_SWAP),
    RCOP("mzd_col_swap", R_RW, 0, 0, RC_COL_SWAP),
    RCOP("mzd_col_swap_in_rows", R_RW, 0, 0, RC_COL_SWAP_IN_ROWS),
    RCOP("mzd_row_add", R_RW, 0, 0, RC_ROW_ADD),
    RCOP("mzd_row_add_offset", R_RW, 0, 0, RC_ROW_ADD_OFFSET),
    RCOP("mzd_row_clear_offset", R_RW, 0, 0, RC_ROW_CLEAR_OFFSET),
    RCOP("mzd_xor_bits", R_RW, 0, 0, RC_XOR_BITS),
    RCOP("mzd_clear_bits", R_RW, 0, 0, RC_CLEAR_BITS),
    RCOP("mzd_read_bits", R_RO, 0, 0, RC_READ_BITS),
    RCOP("mzd_combine", R_RW, R_RO, R_RO, RC_COMBINE),
    RCOP("mzd_combine_even", R_RW, R_RO, R_RO, RC_COMBINE_EVEN),
    RCOP("mzd_combine_even_in_place", R_RW, R_RO, R_RO, RC_COMBINE_INPLACE),
    RCOP("mzd_apply_p_left", R_RW, 0, 0, RC_P_LEFT),
    RCOP("mzd_apply_p_left_trans", R_RW, 0, 0, RC_P_LEFT_TRANS),
    RCOP("mzd_apply_p_right", R_RW, 0, 0, RC_P_RIGHT),
    RCOP("mzd_apply_p_right_trans", R_RW, 0, 0, RC_P_RIGHT_TRANS),
    RCOP("mzd_apply_p_right_even_capped", R_RW, 0, 0, RC_P_RIGHT_CAPPED),
    RCOP("mzd_apply_p_right_trans_even_capped", R_RW, 0, 0, RC_P_RIGHT_TRANS_CAPPED),
    RCOP("mzd_apply_p_right_trans_tri", R_RW, 0, 0, RC_P_RIGHT_TRANS_TRI),
    RCOP("mzp_relations", R_RW, 0, 0, RC_P_RELATIONS),
};
const int NOPS_RC = sizeof OPS_RC / sizeof OPS_RC[0];
