/* Addition and data movement (C08). */
#include "ops.h"
#include <stdio.h>
#include <stdlib.h>
#include <string.h>

enum { M_ADD, M__ADD, M_TRANSPOSE, M_COPY, M_COPY_ROW, M_SET_UI, M_SUBMATRIX, M_CONCAT, M_STACK, M_EXTRACT_U, M_EXTRACT_L };

static char dimcls(int d) {
  return d <= 8 ? 'a' : d <= 16 ? 'b' : d <= 32 ? 'c' : d < 64 ? 'd' : d == 64 ? 'e' : d <= 128 ? 'f' : d <= 512 ? 'g' : d <= 768 ? 'h' : 'i';
}
static int pat2(rng_t *r) {
  /* dense, complement-like (ones), single entry: positions of both bit values are checked */
  int c = rng_int(r, 0, 9);
  return c < 5 ? PAT_DENSE : c < 6 ? PAT_ONES : c < 8 ? PAT_SINGLE : gen_pat(r);
}
/* dims: forced by the monitor through ip[6], ip[7] when non-zero */
static void dims(opcase_t *c, rng_t *r, int maxdim, int *m, int *n) {
  *m = c->ip[6] ? (int)c->ip[6] : gen_dim(r, maxdim);
  *n = c->ip[7] ? (int)c->ip[7] : gen_dim(r, maxdim);
}

static void gen_move(opcase_t *c, rng_t *r, int maxdim) {
  int v = c->op->variant, m, n;
  dims(c, r, maxdim, &m, &n);
  int p = pat2(r);
  const char *extra = "";
  char eb[64] = "";
  switch (v) {
  case M_ADD:
  case M__ADD: {
    if (!c->ip[7] && rng_chance(r, 1, 2)) n = 64 * rng_int(r, 0, 9) + rng_int(r, 1, 64); /* every row width 1..10 words */
    c->in[1] = gen_mat(r, m, n, p);
    c->in[2] = gen_mat(r, m, n, pat2(r));
    int a = rng_int(r, 0, 3);
    if (v == M__ADD && a == 0) a = 1;
    if (a == 0)
      extra = "C=NULL";
    else if (a == 1) {
      c->in[0] = gen_mat(r, m, n, PAT_DENSE);
      extra = "C=given";
    } else if (a == 2) {
      c->same_as[0] = 1;
      extra = "C=A";
    } else {
      c->same_as[0] = 2;
      extra = "C=B";
    }
    c->overwr[0] = (a == 1);
    snprintf(c->pcls, sizeof c->pcls, "%s,w%d", extra, (n + 63) / 64 > 8 ? 9 : (n + 63) / 64);
    break;
  }
  case M_TRANSPOSE: {
    c->in[1] = gen_mat(r, m, n, p);
    if (rng_chance(r, 1, 2)) {
      c->in[0] = gen_mat(r, n, m, PAT_DENSE);
      extra = "DST=given";
    } else
      extra = "DST=NULL";
    c->overwr[0] = 1;
    int mx = m > n ? m : n;
    const char *kc = mx <= 8 ? "le8" : mx <= 16 ? "le16" : mx <= 32 ? "le32" : mx < 64 ? "lt64" : mx <= 512 ? "block" : mx <= 768 ? "split64" : "split512";
    snprintf(c->pcls, sizeof c->pcls, "%s", kc);
    hx_tag("transpose_%s", kc);
    break;
  }
  case M_COPY: {
    c->in[1] = gen_mat(r, m, n, p);
    int t = rng_int(r, 0, 7);
    c->overwr[0] = 1;
    if (t < 3) {
      c->in[0] = gen_mat(r, m, n, PAT_DENSE);
      extra = "DST=given";
    } else if (t < 5) {
      /* mzd_copy accepts a larger target (it only rejects a smaller one): the block is placed top-left, the rest stays */
      int dm = rng_int(r, 0, 3), dn = rng_chance(r, 1, 3) ? 0 : rng_int(r, 1, 130);
      if (!dm && !dn) dn = 1;
      c->in[0] = gen_mat(r, m + dm, n + dn, PAT_DENSE);
      c->overwr[0] = 0;
      extra = "DST=larger";
      snprintf(c->pcls, sizeof c->pcls, "larger-dst");
    } else
      extra = "DST=NULL";
    break;
  }
  case M_COPY_ROW: {
    int nb = n + (rng_chance(r, 1, 2) ? 0 : rng_int(r, 0, 130));
    int mb = gen_dim(r, 40);
    c->in[0] = gen_mat(r, mb, nb, PAT_DENSE);
    c->in[1] = gen_mat(r, m, n, p);
    c->ip[0] = rng_int(r, 0, mb - 1);
    c->ip[1] = rng_int(r, 0, m - 1);
    snprintf(eb, sizeof eb, "B=%dx%d i=%ld j=%ld", mb, nb, c->ip[0], c->ip[1]);
    extra = eb;
    snprintf(c->pcls, sizeof c->pcls, "%s", nb == n ? "samewidth" : (nb + 63) / 64 == (n + 63) / 64 ? "sameword" : "wider");
    break;
  }
  case M_SET_UI: {
    c->in[0] = gen_mat(r, m, n, p);
    c->ip[0] = rng_int(r, 0, 3);
    snprintf(eb, sizeof eb, "value=%ld", c->ip[0]);
    extra = eb;
    break;
  }
  case M_SUBMATRIX: {
    /* parent M larger than the forced/generated block */
    int lowr = rng_int(r, 0, 5), lowc;
    int t = rng_int(r, 0, 3);
    lowc = t == 0 ? 0 : t == 1 ? 64 * rng_int(r, 0, 3) : rng_int(r, 0, 200);
    int M_ = lowr + m + rng_int(r, 0, 4), N_ = lowc + n + (rng_chance(r, 1, 3) ? 0 : rng_int(r, 0, 130));
    c->in[1] = gen_mat(r, M_, N_, p == PAT_SINGLE ? PAT_DENSE : p);
    if (rng_chance(r, 1, 2)) c->in[0] = gen_mat(r, m, n, PAT_DENSE);
    c->overwr[0] = 1;
    c->ip[0] = lowr;
    c->ip[1] = lowc;
    c->ip[2] = lowr + m;
    c->ip[3] = lowc + n;
    snprintf(eb, sizeof eb, "M=%dx%d low=(%d,%d) S=%s", M_, N_, lowr, lowc, c->in[0] ? "given" : "NULL");
    extra = eb;
    snprintf(c->pcls, sizeof c->pcls, "%s", lowc % 64 == 0 ? "aligned" : "unaligned");
    hx_tag("submatrix_%s", lowc % 64 == 0 ? "aligned" : "unaligned");
    hx_cls("sc%d,nc%d", lowc % 64, n % 64);
    break;
  }
  case M_CONCAT: {
    int n2 = gen_dim(r, maxdim);
    c->in[1] = gen_mat(r, m, n, p);
    c->in[2] = gen_mat(r, m, n2, pat2(r));
    if (rng_chance(r, 1, 2)) c->in[0] = gen_mat(r, m, n + n2, PAT_DENSE);
    c->overwr[0] = 1;
    snprintf(eb, sizeof eb, "nB=%d C=%s", n2, c->in[0] ? "given" : "NULL");
    extra = eb;
    break;
  }
  case M_STACK: {
    int m2 = gen_dim(r, maxdim);
    c->in[1] = gen_mat(r, m, n, p);
    c->in[2] = gen_mat(r, m2, n, pat2(r));
    if (rng_chance(r, 1, 2)) c->in[0] = gen_mat(r, m + m2, n, PAT_DENSE);
    c->overwr[0] = 1;
    snprintf(eb, sizeof eb, "mB=%d C=%s", m2, c->in[0] ? "given" : "NULL");
    extra = eb;
    break;
  }
  case M_EXTRACT_U:
  case M_EXTRACT_L: {
    c->in[1] = gen_mat(r, m, n, p == PAT_SINGLE ? PAT_DENSE : p);
    int k = m < n ? m : n;
    if (rng_chance(r, 1, 2)) c->in[0] = gen_mat(r, k, k, PAT_DENSE);
    c->overwr[0] = 1;
    extra = c->in[0] ? "dst=given" : "dst=NULL";
    break;
  }
  }
  snprintf(c->desc, sizeof c->desc, "m=%d n=%d pat=%s %s", m, n, pat_name(p), extra);
  hx_cls("%s:%s:%c%d%c%d:%s:%c", c->op->name, c->pcls, dimcls(m), m % 64 == 0 ? 0 : m % 64 == 63 ? 9 : m % 64 == 1 ? 1 : 5, dimcls(n),
         n % 64 == 0 ? 0 : n % 64 == 63 ? 9 : n % 64 == 1 ? 1 : 5, pat_name(p), c->in[0] ? 'C' : (c->same_as[0] >= 0 ? 'A' : 'N'));
  c->nontrivial = !(m == 1 && n == 1) && p != PAT_ZERO;
}

static void run_move(opcase_t *c) {
  int v = c->op->variant;
  mzd_t *D = c->o[0] ? c->o[0]->M : NULL;
  switch (v) {
  case M_ADD: c->ret = mzd_add(D, c->o[1]->M, c->o[2]->M); break;
  case M__ADD: c->ret = _mzd_add(D, c->o[1]->M, c->o[2]->M); break;
  case M_TRANSPOSE: {
    c->ret = mzd_transpose(D, c->o[1]->M);
    /* transposing twice gives the original */
    mzd_t *TT = mzd_transpose(NULL, c->ret);
    opcase_expect(c, TT, INV(c, 1), "double transpose");
    long pb = mzd_padding_bits(TT);
    if (pb) opcase_fail(c, "padding-nonzero", "double transpose result has %ld padding bits set", pb);
    mzd_free(TT);
    break;
  }
  case M_COPY: c->ret = mzd_copy(D, c->o[1]->M); break;
  case M_COPY_ROW:
    mzd_copy_row(D, (rci_t)c->ip[0], c->o[1]->M, (rci_t)c->ip[1]);
    c->ret = D;
    break;
  case M_SET_UI:
    mzd_set_ui(D, (unsigned)c->ip[0]);
    c->ret = D;
    break;
  case M_SUBMATRIX: c->ret = mzd_submatrix(D, c->o[1]->M, (rci_t)c->ip[0], (rci_t)c->ip[1], (rci_t)c->ip[2], (rci_t)c->ip[3]); break;
  case M_CONCAT: c->ret = mzd_concat(D, c->o[1]->M, c->o[2]->M); break;
  case M_STACK: c->ret = mzd_stack(D, c->o[1]->M, c->o[2]->M); break;
  case M_EXTRACT_U: c->ret = mzd_extract_u(D, c->o[1]->M); break;
  case M_EXTRACT_L: c->ret = mzd_extract_l(D, c->o[1]->M); break;
  }
}

static void check_move(opcase_t *c) {
  int v = c->op->variant;
  rm_t *E = NULL;
  if (c->o[0] && c->ret != c->o[0]->M) opcase_fail(c, "wrong-return", "returned pointer is not the supplied destination");
  switch (v) {
  case M_ADD:
  case M__ADD: E = rm_add(INV(c, 1), INV(c, 2)); break;
  case M_TRANSPOSE: {
    E = rm_transpose(INV(c, 1));
    break;
  }
  case M_COPY: {
    const rm_t *A = INV(c, 1);
    if (c->in[0] && (c->in[0]->m != A->m || c->in[0]->n != A->n)) {
      E = rm_copy(c->in[0]);
      for (int i = 0; i < A->m; i++)
        for (int j = 0; j < A->n; j++) RM(E, i, j) = RM(A, i, j);
    } else
      E = rm_copy(A);
    break;
  }
  case M_COPY_ROW: {
    E = rm_copy(INV(c, 0));
    const rm_t *A = INV(c, 1);
    for (int j = 0; j < A->n; j++) RM(E, c->ip[0], j) = RM(A, c->ip[1], j);
    break;
  }
  case M_SET_UI: {
    const rm_t *A = INV(c, 0);
    E = rm_new(A->m, A->n);
    if (c->ip[0] % 2)
      for (int i = 0; i < A->m && i < A->n; i++) RM(E, i, i) = 1;
    break;
  }
  case M_SUBMATRIX: E = rm_sub(INV(c, 1), (int)c->ip[0], (int)c->ip[1], (int)c->ip[2], (int)c->ip[3]); break;
  case M_CONCAT: E = rm_concat(INV(c, 1), INV(c, 2)); break;
  case M_STACK: E = rm_stack(INV(c, 1), INV(c, 2)); break;
  case M_EXTRACT_U:
  case M_EXTRACT_L: {
    const rm_t *A = INV(c, 1);
    int k = A->m < A->n ? A->m : A->n;
    E = rm_new(k, k);
    for (int i = 0; i < k; i++)
      for (int j = 0; j < k; j++)
        if (v == M_EXTRACT_U ? (j >= i) : (j <= i)) RM(E, i, j) = RM(A, i, j);
    break;
  }
  }
  if (E) {
    opcase_expect(c, c->ret, E, c->op->name);
    rm_free(E);
  }
}

#define MOP(nm, r0, r1, r2, var)                                                                                                                     \
  { nm, "move", {r0, r1, r2, R_NONE}, 0, var, gen_move, run_move, check_move, NULL }
const op_t OPS_MOVE[] = {
    MOP("mzd_add", R_RW, R_RO, R_RO, M_ADD),
    MOP("_mzd_add", R_RW, R_RO, R_RO, M__ADD),
    MOP("mzd_transpose", R_RW, R_RO, 0, M_TRANSPOSE),
    MOP("mzd_copy", R_RW, R_RO, 0, M_COPY),
    MOP("mzd_copy_row", R_RW, R_RO, 0, M_COPY_ROW),
    MOP("mzd_set_ui", R_RW, 0, 0, M_SET_UI),
    MOP("mzd_submatrix", R_RW, R_RO, 0, M_SUBMATRIX),
    MOP("mzd_concat", R_RW, R_RO, R_RO, M_CONCAT),
    MOP("mzd_stack", R_RW, R_RO, R_RO, M_STACK),
    MOP("mzd_extract_u", R_RW, R_RO, 0, M_EXTRACT_U),
    MOP("mzd_extract_l", R_RW, R_RO, 0, M_EXTRACT_L),
};
const int NOPS_MOVE = sizeof OPS_MOVE / sizeof OPS_MOVE[0];
