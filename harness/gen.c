#include "gen.h"
#include <stdlib.h>
#include <string.h>

static uint64_t splitmix(uint64_t *x) {
  uint64_t z = (*x += 0x9e3779b97f4a7c15ULL);
  z = (z ^ (z >> 30)) * 0xbf58476d1ce4e5b9ULL;
  z = (z ^ (z >> 27)) * 0x94d049bb133111ebULL;
  return z ^ (z >> 31);
}
void rng_seed(rng_t *r, uint64_t a, uint64_t b, uint64_t c) {
  uint64_t x = a * 0x9E3779B97F4A7C15ULL ^ (b + 0x7f4a7c15ULL) * 0xD1B54A32D192ED03ULL ^ (c << 17) ^ 0x1234567ULL;
  for (int i = 0; i < 4; i++) r->s[i] = splitmix(&x);
}
static inline uint64_t rotl(uint64_t x, int k) { return (x << k) | (x >> (64 - k)); }
uint64_t rng_u64(rng_t *r) {
  uint64_t *s = r->s;
  uint64_t result = rotl(s[1] * 5, 7) * 9, t = s[1] << 17;
  s[2] ^= s[0];
  s[3] ^= s[1];
  s[1] ^= s[2];
  s[0] ^= s[3];
  s[2] ^= t;
  s[3] = rotl(s[3], 45);
  return result;
}
int rng_int(rng_t *r, int lo, int hi) {
  if (hi <= lo) return lo;
  return lo + (int)(rng_u64(r) % (uint64_t)(hi - lo + 1));
}
int rng_chance(rng_t *r, int num, int den) { return (int)(rng_u64(r) % (uint64_t)den) < num; }
int rng_pick(rng_t *r, const int *v, int n) { return v[rng_int(r, 0, n - 1)]; }

static const int EDGE[] = {1,   1,   2,   3,   7,   8,   9,   15,  16,  17,  31,  32,  33,  53,  54,  55,
                           63,  64,  65,  95,  127, 128, 129, 191, 192, 193, 255, 256, 257, 319, 320, 321,
                           383, 384, 385, 511, 512, 513, 767, 768, 769, 1023, 1024, 1025, 2047, 2048, 2049};
#define NEDGE ((int)(sizeof(EDGE) / sizeof(EDGE[0])))

int GEN_MINDIM = 0;
int GEN_WIDE = 0;
static int gen_dim0(rng_t *r, int maxd);
int gen_dim(rng_t *r, int maxd) {
  if (GEN_WIDE && maxd > 600) {
    /* wide mode: every dimension is either short (cheap) or wider than 8 machine words, so that the 8-way unrolled word loops
     * of the library (Duff's devices, `ii + 8 <= width - 1` loops, the PLE strip of 8 words) go round more than once */
    if (rng_chance(r, 1, 2)) return rng_int(r, 1, 100);
    static const int W[] = {513, 514, 575, 576, 577, 600, 640, 641, 1023, 1024, 1025, 1087, 1088, 1089, 1100};
    if (rng_chance(r, 1, 2)) {
      int d = W[rng_int(r, 0, (int)(sizeof W / sizeof W[0]) - 1)];
      if (d <= maxd) return d;
    }
    return rng_int(r, 513, maxd);
  }
  int d = gen_dim0(r, maxd);
  if (GEN_MINDIM > 0 && d < GEN_MINDIM && maxd > GEN_MINDIM) d = GEN_MINDIM + d % (maxd - GEN_MINDIM + 1);
  return d;
}
static int gen_dim0(rng_t *r, int maxd) {
  if (maxd < 1) maxd = 1;
  int c = rng_int(r, 0, 9);
  if (c < 5) {
    int ne = 0;
    while (ne < NEDGE && EDGE[ne] <= maxd) ne++;
    if (ne > 0) return EDGE[rng_int(r, 0, ne - 1)];
  }
  if (c < 7 && maxd >= 64) {
    int k = rng_int(r, 1, maxd / 64);
    int d = 64 * k + rng_int(r, -1, 1);
    if (d >= 1 && d <= maxd) return d;
  }
  return rng_int(r, 1, maxd);
}
int gen_dim_sp(rng_t *r, const int *sp, int nsp, int maxd) {
  if (nsp > 0 && rng_chance(r, 1, 2)) {
    for (int t = 0; t < 8; t++) {
      int d = sp[rng_int(r, 0, nsp - 1)];
      if (d >= 1 && d <= maxd && d >= GEN_MINDIM) return d;
    }
  }
  return gen_dim(r, maxd);
}

static const char *PATN[] = {"dense", "sparse1", "sparse2", "zero", "ident", "single", "ones", "band", "lowrank", "stripe"};
const char *pat_name(int pat) { return (pat >= 0 && pat < PAT_N) ? PATN[pat] : "?"; }
int gen_pat(rng_t *r) {
  int c = rng_int(r, 0, 99);
  if (c < 45) return PAT_DENSE;
  if (c < 55) return PAT_SPARSE1;
  if (c < 62) return PAT_SPARSE2;
  if (c < 66) return PAT_ZERO;
  if (c < 71) return PAT_IDENT;
  if (c < 77) return PAT_SINGLE;
  if (c < 82) return PAT_ONES;
  if (c < 88) return PAT_BAND;
  if (c < 95) return PAT_LOWRANK;
  return PAT_STRIPE;
}
static void fill_bern(rng_t *r, rm_t *A, uint64_t thr /* P(1) = thr/2^32 */) {
  size_t t = (size_t)A->m * A->n;
  for (size_t i = 0; i < t; i++) A->e[i] = (uint32_t)(rng_u64(r) >> 32) < thr;
}
void gen_fill(rng_t *r, rm_t *A, int pat) {
  size_t t = (size_t)A->m * A->n;
  memset(A->e, 0, t);
  if (t == 0) return;
  switch (pat) {
  case PAT_DENSE: {
    size_t i = 0;
    while (i < t) {
      uint64_t w = rng_u64(r);
      for (int b = 0; b < 64 && i < t; b++, i++) A->e[i] = (w >> b) & 1;
    }
    break;
  }
  case PAT_SPARSE1: fill_bern(r, A, (uint64_t)(0.02 * 4294967296.0)); break;
  case PAT_SPARSE2: fill_bern(r, A, (uint64_t)(0.002 * 4294967296.0)); break;
  case PAT_ZERO: break;
  case PAT_IDENT:
    for (int i = 0; i < A->m && i < A->n; i++) RM(A, i, i) = 1;
    break;
  case PAT_SINGLE: {
    /* word-boundary biased position */
    int i = rng_chance(r, 1, 3) ? A->m - 1 : rng_int(r, 0, A->m - 1);
    int j;
    int c = rng_int(r, 0, 3);
    if (c == 0)
      j = A->n - 1;
    else if (c == 1)
      j = 0;
    else if (c == 2 && A->n > 64) {
      j = 64 * rng_int(r, 1, (A->n - 1) / 64) - rng_int(r, 0, 1);
    } else
      j = rng_int(r, 0, A->n - 1);
    RM(A, i, j) = 1;
    break;
  }
  case PAT_ONES: memset(A->e, 1, t); break;
  case PAT_BAND: {
    int bw = rng_int(r, 1, 70);
    for (int i = 0; i < A->m; i++)
      for (int j = 0; j < A->n; j++) {
        int d = i - j;
        if (d < 0) d = -d;
        if (d <= bw) RM(A, i, j) = rng_u64(r) & 1;
      }
    break;
  }
  case PAT_LOWRANK: {
    int k = rng_int(r, 1, 5);
    rm_t *U = rm_new(A->m, k), *V = rm_new(k, A->n);
    gen_fill(r, U, PAT_DENSE);
    gen_fill(r, V, PAT_DENSE);
    rm_t *P = rm_mul(U, V);
    memcpy(A->e, P->e, t);
    rm_free(U);
    rm_free(V);
    rm_free(P);
    break;
  }
  case PAT_STRIPE: {
    int per = rng_int(r, 2, 67);
    int byrow = rng_chance(r, 1, 2);
    for (int i = 0; i < A->m; i++)
      for (int j = 0; j < A->n; j++) RM(A, i, j) = ((byrow ? i : j) % per) == 0;
    break;
  }
  default: break;
  }
}
rm_t *gen_mat(rng_t *r, int m, int n, int pat) {
  rm_t *A = rm_new(m, n);
  gen_fill(r, A, pat);
  return A;
}

static const char *RPN[] = {"random", "contig", "gapped", "skipword", "lastword", "zero", "full", "one"};
const char *rp_name(int k) { return (k >= 0 && k < RP_N) ? RPN[k] : "?"; }

static int cmp_int(const void *a, const void *b) { return *(const int *)a - *(const int *)b; }

rm_t *gen_rankprof(rng_t *r, int m, int n, int kind, int sparse, int *pivots, int *rank, int *kind_out) {
  int mn = m < n ? m : n;
  if (kind < 0) {
    int c = rng_int(r, 0, 99);
    kind = c < 30 ? RP_RANDOM : c < 42 ? RP_CONTIG : c < 62 ? RP_GAPPED : c < 74 ? RP_SKIPWORD : c < 84 ? RP_LASTWORD : c < 88 ? RP_ZERO : c < 95 ? RP_FULL : RP_ONE;
  }
  int *piv = malloc(sizeof(int) * (mn + 1));
  int rk = 0;
  switch (kind) {
  case RP_ZERO: rk = 0; break;
  case RP_ONE:
    rk = 1;
    piv[0] = rng_chance(r, 1, 3) ? n - 1 : rng_int(r, 0, n - 1);
    break;
  case RP_FULL: {
    rk = mn;
    /* choose mn columns out of n: random subset */
    int *all = malloc(sizeof(int) * n);
    for (int j = 0; j < n; j++) all[j] = j;
    if (rng_chance(r, 1, 2)) {
      for (int j = 0; j < rk; j++) piv[j] = j; /* leading */
    } else {
      for (int j = 0; j < rk; j++) {
        int k = rng_int(r, j, n - 1);
        int t = all[j];
        all[j] = all[k];
        all[k] = t;
        piv[j] = all[j];
      }
      qsort(piv, rk, sizeof(int), cmp_int);
    }
    free(all);
    break;
  }
  case RP_CONTIG: {
    rk = rng_int(r, 1, mn);
    int start = rng_int(r, 0, n - rk);
    for (int j = 0; j < rk; j++) piv[j] = start + j;
    break;
  }
  case RP_LASTWORD: {
    int lw = (n - 1) / 64 * 64;
    int avail = n - lw;
    rk = rng_int(r, 1, avail < mn ? avail : mn);
    int start = rng_int(r, lw, n - rk);
    for (int j = 0; j < rk; j++) piv[j] = start + j;
    break;
  }
  case RP_SKIPWORD:
  case RP_GAPPED:
  case RP_RANDOM:
  default: {
    /* walk columns, taking pivots with gaps */
    int c = 0;
    int maxr = rng_chance(r, 1, 3) ? mn : rng_int(r, 1, mn);
    while (c < n && rk < maxr) {
      if (kind == RP_SKIPWORD && rng_chance(r, 1, 6)) {
        c = (c / 64 + 1 + rng_int(r, 0, 1)) * 64 + rng_int(r, 0, 3); /* skip whole word(s) */
        continue;
      }
      if (kind == RP_GAPPED && rng_chance(r, 1, 5)) {
        c += rng_int(r, 1, 90); /* gap possibly larger than the 6k block */
        continue;
      }
      if (kind == RP_RANDOM && rng_chance(r, 1, 3)) {
        c += 1;
        continue;
      }
      piv[rk++] = c++;
    }
    break;
  }
  }
  /* E: rk x n RREF */
  rm_t *E = rm_new(rk, n);
  uint64_t thr = sparse ? (uint64_t)(0.03 * 4294967296.0) : 0x80000000ULL;
  for (int i = 0; i < rk; i++) {
    RM(E, i, piv[i]) = 1;
    int pi = i + 1;
    for (int j = piv[i] + 1; j < n; j++) {
      while (pi < rk && piv[pi] < j) pi++;
      if (pi < rk && piv[pi] == j) continue; /* pivot column: zero */
      RM(E, i, j) = (uint32_t)(rng_u64(r) >> 32) < thr;
    }
  }
  /* L: m x rk full column rank: top rk x rk invertible, rest random (with zero/duplicate rows) */
  rm_t *L = rm_new(m, rk);
  if (rk > 0) {
    rm_t *T = gen_invertible(r, rk);
    if (sparse) { /* sparse invertible: unit lower triangular sparse */
      memset(T->e, 0, (size_t)rk * rk);
      for (int i = 0; i < rk; i++) {
        RM(T, i, i) = 1;
        for (int j = 0; j < i; j++) RM(T, i, j) = (uint32_t)(rng_u64(r) >> 32) < thr;
      }
    }
    memcpy(L->e, T->e, (size_t)rk * rk);
    rm_free(T);
    for (int i = rk; i < m; i++) {
      int c = rng_int(r, 0, 9);
      if (c == 0) continue; /* zero row */
      if (c == 1) {         /* duplicate */
        int s = rng_int(r, 0, i - 1);
        memcpy(L->e + (size_t)i * rk, L->e + (size_t)s * rk, rk);
        continue;
      }
      for (int j = 0; j < rk; j++) RM(L, i, j) = (uint32_t)(rng_u64(r) >> 32) < thr;
    }
  }
  rm_t *A = rm_mul(L, E);
  rm_free(L);
  rm_free(E);
  /* row permutation (keeps row space): 2/3 of the time */
  if (m > 1 && rng_chance(r, 2, 3)) {
    for (int i = m - 1; i > 0; i--) {
      int k = rng_int(r, 0, i);
      rm_swap_rows(A, i, k);
    }
  }
  if (pivots) memcpy(pivots, piv, sizeof(int) * rk);
  if (rank) *rank = rk;
  if (kind_out) *kind_out = kind;
  free(piv);
  return A;
}

rm_t *gen_invertible(rng_t *r, int n) {
  /* P * L * U with unit triangular random factors */
  rm_t *L = rm_new(n, n), *U = rm_new(n, n);
  for (int i = 0; i < n; i++) {
    RM(L, i, i) = 1;
    RM(U, i, i) = 1;
    for (int j = 0; j < i; j++) RM(L, i, j) = rng_u64(r) & 1;
    for (int j = i + 1; j < n; j++) RM(U, i, j) = rng_u64(r) & 1;
  }
  rm_t *A = rm_mul(L, U);
  rm_free(L);
  rm_free(U);
  for (int i = n - 1; i > 0; i--) rm_swap_rows(A, i, rng_int(r, 0, i));
  return A;
}

rm_t *gen_tri_junk(rng_t *r, int n, int lower, int sparse) {
  rm_t *T = rm_new(n, n);
  uint64_t thr = sparse ? (uint64_t)(0.03 * 4294967296.0) : 0x80000000ULL;
  for (int i = 0; i < n; i++)
    for (int j = 0; j < n; j++) {
      if (i == j)
        RM(T, i, j) = 1;
      else if (lower ? (j < i) : (j > i))
        RM(T, i, j) = (uint32_t)(rng_u64(r) >> 32) < thr;
      else
        RM(T, i, j) = rng_u64(r) & 1; /* junk in the unused triangle */
    }
  return T;
}

void gen_perm(rng_t *r, int *p, int len, int n, int kind) {
  for (int i = 0; i < len; i++) p[i] = i < n ? i : n - 1;
  if (len == 0 || n <= 1) return;
  int lim = len < n ? len : n;
  switch (kind) {
  case 0: break;
  case 1: {
    int i = rng_int(r, 0, lim - 1);
    p[i] = rng_int(r, i, n - 1);
    break;
  }
  case 3:
    for (int i = 0; i < lim; i++) p[i] = n - 1;
    break;
  default:
    for (int i = 0; i < lim; i++) p[i] = rng_int(r, i, n - 1);
  }
}
