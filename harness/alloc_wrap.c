/* Allocator / abort interposer, linked ONLY into the library objects (ld -r --wrap=...), so that
 * exactly the allocation requests made by m4ri code are seen: counted, poisoned, failed on demand
 * and tracked in a live set.  Harness allocations never pass through here. */
#define _GNU_SOURCE
#include <errno.h>
#include <execinfo.h>
#include <pthread.h>
#include <stdint.h>
#include <stdio.h>
#include <stdlib.h>
#include <string.h>
#include <unistd.h>

void *__real_malloc(size_t);
void *__real_calloc(size_t, size_t);
void *__real_realloc(void *, size_t);
int __real_posix_memalign(void **, size_t, size_t);
void __real_free(void *);
void __real_abort(void) __attribute__((noreturn));

volatile int AW_armed = 0;
volatile long AW_count = 0;
volatile long AW_fail_at = 0;
volatile int AW_poison = 0;
volatile long AW_failed_seen = 0;
volatile long AW_total_calls = 0;
static volatile int AW_track = 0;
void (*AW_abort_hook)(void) = 0;

#ifndef AW_NOTRACK
#define HSZ (1u << 16)
static struct {
  void *p;
  size_t sz;
} H[HSZ];
static long H_live = 0;
static size_t H_bytes = 0;
static pthread_mutex_t H_mu = PTHREAD_MUTEX_INITIALIZER;
static unsigned hidx(void *p) { return (unsigned)(((uintptr_t)p >> 4) * 2654435761u) & (HSZ - 1); }
static void h_add(void *p, size_t sz) {
  if (!p) return;
  pthread_mutex_lock(&H_mu);
  unsigned i = hidx(p);
  for (unsigned n = 0; n < HSZ; n++, i = (i + 1) & (HSZ - 1)) {
    if (H[i].p == NULL || H[i].p == (void *)1) {
      H[i].p = p;
      H[i].sz = sz;
      H_live++;
      H_bytes += sz;
      break;
    }
  }
  pthread_mutex_unlock(&H_mu);
}
static void h_del(void *p) {
  if (!p) return;
  pthread_mutex_lock(&H_mu);
  unsigned i = hidx(p);
  for (unsigned n = 0; n < HSZ; n++, i = (i + 1) & (HSZ - 1)) {
    if (H[i].p == p) {
      H[i].p = (void *)1;
      H_live--;
      H_bytes -= H[i].sz;
      break;
    }
    if (H[i].p == NULL) break;
  }
  pthread_mutex_unlock(&H_mu);
}
long aw_live_blocks(void) { return H_live; }
size_t aw_live_bytes(void) { return H_bytes; }
void aw_track(int on) { AW_track = on; }
void aw_live_reset(void) {
  pthread_mutex_lock(&H_mu);
  memset(H, 0, sizeof H);
  H_live = 0;
  H_bytes = 0;
  pthread_mutex_unlock(&H_mu);
}
void aw_dump_live(int max) {
  int k = 0;
  for (unsigned i = 0; i < HSZ && k < max; i++)
    if (H[i].p && H[i].p != (void *)1) {
      fprintf(stderr, "AW-LIVE %p %zu\n", H[i].p, H[i].sz);
      k++;
    }
}
#else
static void h_add(void *p, size_t sz) { (void)p; (void)sz; }
static void h_del(void *p) { (void)p; }
long aw_live_blocks(void) { return 0; }
size_t aw_live_bytes(void) { return 0; }
void aw_track(int on) { (void)on; }
void aw_live_reset(void) {}
void aw_dump_live(int max) { (void)max; }
#endif

static uint64_t pz = 0x243F6A8885A308D3ULL;
static void poison(void *p, size_t sz) {
  if (!p || !sz) return;
  switch (AW_poison) {
  case 1: memset(p, 0x00, sz); break;
  case 2: memset(p, 0xFF, sz); break;
  case 3: memset(p, 0xA5, sz); break;
  case 4: {
    unsigned char *b = p;
    uint64_t x = pz;
    for (size_t i = 0; i < sz; i++) {
      x ^= x << 13;
      x ^= x >> 7;
      x ^= x << 17;
      b[i] = (unsigned char)(x >> 24);
    }
    pz = x;
    break;
  }
  default: break;
  }
}

static void report_site(const char *what, size_t sz) {
  void *bt[12];
  int n = backtrace(bt, 12);
  char **sym = backtrace_symbols(bt, n);
  char line[1024];
  int off = snprintf(line, sizeof line, "AW-FAIL-SITE %s size=%zu :", what, sz);
  for (int i = 2; i < n && i < 7 && sym; i++) {
    /* keep only the function name inside (...) */
    const char *l = strchr(sym[i], '(');
    const char *r = l ? strpbrk(l, "+)") : NULL;
    if (l && r && r > l + 1)
      off += snprintf(line + off, sizeof line - off, " %.*s", (int)(r - l - 1), l + 1);
    else
      off += snprintf(line + off, sizeof line - off, " ?");
    if (off >= (int)sizeof line - 64) break;
  }
  line[sizeof line - 2] = 0;
  strcat(line, "\n");
  if (write(2, line, strlen(line)) < 0) {}
}

/* returns 1 if this request must fail */
static int tick(const char *what, size_t sz) {
  __atomic_add_fetch(&AW_total_calls, 1, __ATOMIC_RELAXED);
  if (!AW_armed) return 0;
  long c = __atomic_add_fetch(&AW_count, 1, __ATOMIC_RELAXED);
  if (AW_fail_at && c == AW_fail_at) {
    AW_failed_seen++;
    report_site(what, sz);
    return 1;
  }
  return 0;
}

void *__wrap_malloc(size_t sz) {
  if (tick("malloc", sz)) {
    errno = ENOMEM;
    return NULL;
  }
  void *p = __real_malloc(sz);
  if (AW_poison) poison(p, sz);
  if (AW_track) h_add(p, sz);
  return p;
}
void *__wrap_calloc(size_t n, size_t s) {
  if (tick("calloc", n * s)) {
    errno = ENOMEM;
    return NULL;
  }
  void *p = __real_calloc(n, s);
  if (AW_track) h_add(p, n * s);
  return p;
}
void *__wrap_realloc(void *q, size_t sz) {
  if (tick("realloc", sz)) {
    errno = ENOMEM;
    return NULL;
  }
  if (AW_track) h_del(q);
  void *p = __real_realloc(q, sz);
  if (AW_track) h_add(p, sz);
  return p;
}
int __wrap_posix_memalign(void **out, size_t al, size_t sz) {
  if (tick("posix_memalign", sz)) return ENOMEM;
  int e = __real_posix_memalign(out, al, sz);
  if (e == 0) {
    if (AW_poison) poison(*out, sz);
    if (AW_track) h_add(*out, sz);
  }
  return e;
}
void __wrap_free(void *p) {
  if (AW_track) h_del(p);
  __real_free(p);
}
void __wrap_abort(void) {
  if (AW_abort_hook) {
    void (*h)(void) = AW_abort_hook;
    AW_abort_hook = 0;
    h();
  }
  __real_abort();
}
void aw_init(void) {
  void *bt[4];
  backtrace(bt, 4); /* force libgcc load now, not during a failing allocation */
}
long AW_total_calls_get(void) { return AW_total_calls; }
