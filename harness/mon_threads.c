/* C15: concurrent use of the thread-safe build on thread-private matrices, under ThreadSanitizer.
 * Also used (arg "omp") by C16's race monitor: one thread, OpenMP regions inside the library, TSan+Archer.
 * TSan reports are captured in-process through __tsan_on_report and keyed by the outermost library frames. */
#define _GNU_SOURCE
#include "mon.h"
#include <dlfcn.h>
#include <pthread.h>
#include <sched.h>
#include <stdio.h>
#include <stdlib.h>
#include <string.h>
#include <time.h>
#include <unistd.h>

#if defined(__SANITIZE_THREAD__)
#define HAVE_TSAN 1
#elif defined(__has_feature)
#if __has_feature(thread_sanitizer)
#define HAVE_TSAN 1
#endif
#endif

/* ---------------- TSan report capture */
#define MAXREP 64
typedef struct {
  void *stk[2][24];
  int n[2];
} rep_t;
static rep_t REP[MAXREP];
static volatile int NREP, NREP_TOTAL;
#ifdef HAVE_TSAN
int __tsan_get_report_data(void *report, const char **description, int *count, int *stack_count, int *mop_count, int *loc_count, int *mutex_count, int *thread_count,
                           int *unique_tid_count, void **sleep_trace, unsigned long trace_size);
int __tsan_get_report_mop(void *report, unsigned long idx, int *tid, void **addr, int *size, int *write, int *atomic, void **trace, unsigned long trace_size);
int __tsan_get_report_stack(void *report, unsigned long idx, void **trace, unsigned long trace_size);
void __tsan_on_report(void *report) {
  int k = __atomic_fetch_add(&NREP_TOTAL, 1, __ATOMIC_RELAXED);
  if (k >= MAXREP) return;
  const char *desc;
  int count, sc, mc, lc, mxc, tc, uc;
  void *sleep[4];
  memset(&REP[k], 0, sizeof REP[k]);
  if (!__tsan_get_report_data(report, &desc, &count, &sc, &mc, &lc, &mxc, &tc, &uc, sleep, 4)) return;
  for (int i = 0; i < mc && i < 2; i++) {
    int tid, size, wr, at;
    void *addr;
    void *tr[24];
    memset(tr, 0, sizeof tr);
    __tsan_get_report_mop(report, (unsigned long)i, &tid, &addr, &size, &wr, &at, tr, 24);
    int n = 0;
    while (n < 24 && tr[n]) {
      REP[k].stk[i][n] = tr[n];
      n++;
    }
    REP[k].n[i] = n;
  }
  for (int i = 0; i < sc && i < 2 && mc == 0; i++) {
    void *tr[24];
    memset(tr, 0, sizeof tr);
    __tsan_get_report_stack(report, (unsigned long)i, tr, 24);
    int n = 0;
    while (n < 24 && tr[n]) {
      REP[k].stk[i][n] = tr[n];
      n++;
    }
    REP[k].n[i] = n;
  }
  __atomic_fetch_add(&NREP, 1, __ATOMIC_RELEASE);
}
#endif

static int is_lib_name(const char *s) {
  static const char *pre[] = {"mzd_", "_mzd_", "m4ri_", "mzp_", "djb_", "heap_", "ple_table", "_mzd", "mzd_t_", "log2_floor"};
  if (!s) return 0;
  for (unsigned i = 0; i < sizeof pre / sizeof pre[0]; i++)
    if (!strncmp(s, pre[i], strlen(pre[i]))) return 1;
  return 0;
}
/* outermost library frame of a stack (innermost first); "" if none */
static void outer_lib(void **stk, int n, char *out, size_t cap, char *inner, size_t icap) {
  out[0] = 0;
  if (inner) inner[0] = 0;
  for (int i = 0; i < n; i++) {
    Dl_info di;
    if (dladdr((char *)stk[i] - 1, &di) && di.dli_sname && is_lib_name(di.dli_sname)) {
      /* strip gcc clone suffixes (._omp_fn.0, .constprop.1, ...) */
      char nm[128];
      snprintf(nm, sizeof nm, "%s", di.dli_sname);
      char *dot = strchr(nm, '.');
      if (dot) *dot = 0;
      if (inner && !inner[0]) snprintf(inner, icap, "%s", nm);
      snprintf(out, cap, "%s", nm);
    }
  }
}

/* ---------------- thread workload */
typedef struct {
  int t;
  const mon_args_t *a;
  long idx;
  const op_t **sel;
  int nsel, K;
  uint64_t *dig;
  int *opix;
  long *t0, *t1;
  char *failbuf;
  size_t failcap;
  int sequential;
  pthread_barrier_t *bar;
} tw_t;

extern __thread char *HX_FAILBUF;
extern __thread size_t HX_FAILCAP;

static long now_ns(void) {
  struct timespec ts;
  clock_gettime(CLOCK_MONOTONIC, &ts);
  return ts.tv_sec * 1000000000L + ts.tv_nsec;
}

static void *worker(void *arg) {
  tw_t *w = arg;
  HX_FAILBUF = w->failbuf;
  HX_FAILCAP = w->failcap;
  hx_reset(w->idx);
  rng_t r;
  rng_seed(&r, w->a->seed, (uint64_t)w->idx * 1000003ULL + 17, (uint64_t)w->t);
  if (w->bar) pthread_barrier_wait(w->bar);
  for (int k = 0; k < w->K; k++) {
    int oi = rng_int(&r, 0, w->nsel - 1);
    const op_t *op = w->sel[oi];
    opcase_t c;
    opcase_init(&c, op);
    op->gen(&c, &r, w->a->maxdim);
    opcase_place(&c, &r, 0);
    w->opix[k] = oi;
    w->t0[k] = now_ns();
    opcase_run(&c);
    w->t1[k] = now_ns();
    if (!w->sequential) opcase_check(&c);
    w->dig[k] = opcase_digest(&c);
    opcase_cleanup(&c);
    /* delays only between calls: the thread-safe build has no lock to sleep inside */
    int d = rng_int(&r, 0, 9), us = rng_int(&r, 1, 300); /* same PRNG consumption in both modes */
    if (!w->sequential) {
      if (d < 3)
        sched_yield();
      else if (d == 3)
        usleep((useconds_t)us);
    }
    HX.cls[0] = 0;
    HX.tags[0] = 0;
  }
  HX_FAILBUF = NULL;
  return NULL;
}

int mon_threads(const mon_args_t *a) {
  const op_t *sel[160];
  int nsel = mon_select_ops(a, sel, 160);
  if (!nsel) hx_die("no operations selected");
  int omp_mode = a->arg && !strcmp(a->arg, "omp");
  static const int TC[] = {2, 3, 4, 8, 16};
  for (long idx = a->from; idx < a->to; idx++) {
    int T = omp_mode ? 1 : (a->nthreads > 0 ? a->nthreads : TC[idx % 5]);
    int K = a->reps > 1 ? a->reps : 12;
    char kp[96];
    snprintf(kp, sizeof kp, "%s|T=%d|-", omp_mode ? "openmp" : "threads", T);
    hx_reset(idx);
    NREP = 0;
    NREP_TOTAL = 0;
    hx_begin(idx, kp, "threads=%d calls_per_thread=%d ops=%d", T, K, nsel);
    tw_t *W = calloc(T, sizeof *W);
    pthread_t *th = calloc(T, sizeof *th);
    pthread_barrier_t bar;
    pthread_barrier_init(&bar, NULL, (unsigned)T);
    for (int t = 0; t < T; t++) {
      W[t] = (tw_t){.t = t, .a = a, .idx = idx, .sel = sel, .nsel = nsel, .K = K, .bar = &bar};
      W[t].dig = calloc(K, sizeof(uint64_t));
      W[t].opix = calloc(K, sizeof(int));
      W[t].t0 = calloc(K, sizeof(long));
      W[t].t1 = calloc(K, sizeof(long));
      W[t].failcap = 1 << 14;
      W[t].failbuf = calloc(1, W[t].failcap);
    }
    if (omp_mode) {
      W[0].bar = NULL;
      worker(&W[0]);
    } else {
      for (int t = 0; t < T; t++) pthread_create(&th[t], NULL, worker, &W[t]);
      for (int t = 0; t < T; t++) pthread_join(th[t], NULL);
    }
    hx_reset(idx);
    HX.open = 1;
    /* failures observed inside the threads */
    for (int t = 0; t < T; t++)
      if (W[t].failbuf[0]) {
        char *save = NULL;
        for (char *ln = strtok_r(W[t].failbuf, "\n", &save); ln; ln = strtok_r(NULL, "\n", &save)) {
          char *tab = strchr(ln, '\t');
          if (tab) {
            *tab = 0;
            hx_fail(ln, "thread %d: %s", t, tab + 1);
          }
        }
      }
    /* sequential reference: the same sequences, one after the other */
    if (!omp_mode) {
      for (int t = 0; t < T; t++) {
        tw_t S = W[t];
        S.bar = NULL;
        S.sequential = 1;
        S.dig = calloc(K, sizeof(uint64_t));
        S.opix = calloc(K, sizeof(int));
        S.t0 = calloc(K, sizeof(long));
        S.t1 = calloc(K, sizeof(long));
        S.failbuf = calloc(1, S.failcap);
        worker(&S);
        for (int k = 0; k < K; k++)
          if (S.dig[k] != W[t].dig[k]) {
            char key[200];
            snprintf(key, sizeof key, "%s|threads|-|differs-from-sequential", sel[W[t].opix[k]]->name);
            hx_fail(key, "thread %d call %d (%s): result under concurrency differs from the sequential execution of the same sequence", t, k, sel[W[t].opix[k]]->name);
          }
        free(S.dig);
        free(S.opix);
        free(S.t0);
        free(S.t1);
        free(S.failbuf);
      }
    }
    /* concurrency actually observed: pairs of calls from different threads that overlapped in time */
    long pairs = 0;
    unsigned char famseen[160];
    memset(famseen, 0, sizeof famseen);
    for (int t = 0; t < T; t++)
      for (int u = t + 1; u < T; u++)
        for (int i = 0; i < K; i++)
          for (int j = 0; j < K; j++)
            if (W[t].t0[i] < W[u].t1[j] && W[u].t0[j] < W[t].t1[i]) {
              pairs++;
              famseen[W[t].opix[i]] = 1;
              famseen[W[u].opix[j]] = 1;
            }
    int nconc = 0;
    for (int i = 0; i < nsel; i++) nconc += famseen[i];
    hx_tag("overlapping_call_pairs=%s", pairs == 0 ? "0" : pairs < 10 ? "1-9" : pairs < 100 ? "10-99" : ">=100");
    hx_tag("T=%d", T);
    for (int i = 0; i < nsel; i++)
      if (famseen[i]) hx_tag("conc:%s", sel[i]->name);
    hx_cls("T=%d:conc_ops=%d", T, nconc);
    HX.nontrivial = omp_mode ? 1 : pairs > 0;
    /* TSan reports */
    int nrep = __atomic_load_n(&NREP, __ATOMIC_ACQUIRE), harness_race = 0;
    for (int k = 0; k < nrep && k < MAXREP; k++) {
      char a0[128], a1[128], i0[128], i1[128], key[400];
      outer_lib(REP[k].stk[0], REP[k].n[0], a0, sizeof a0, i0, sizeof i0);
      outer_lib(REP[k].stk[1], REP[k].n[1], a1, sizeof a1, i1, sizeof i1);
      if (!a0[0] && !a1[0]) {
        /* a race between harness frames only is a defect of the harness, never a verdict about the library */
        hx_note("HARNESS-RACE: ThreadSanitizer report whose stacks contain no library frame");
        harness_race = 1;
        continue;
      }
      /* key: the innermost library functions of the two accesses (defect specific, independent of the caller) */
      const char *x = i0, *y = i1;
      if (strcmp(x, y) > 0) {
        x = i1;
        y = i0;
      }
      snprintf(key, sizeof key, "%s|tsan|-|race:%s/%s", omp_mode ? "openmp" : "threads", x[0] ? x : "?", y[0] ? y : "?");
      hx_fail(key, "ThreadSanitizer: data race between %s (in %s) and %s (in %s); %d reports in this run", i0[0] ? i0 : "?", a0[0] ? a0 : "?", i1[0] ? i1 : "?", a1[0] ? a1 : "?",
              NREP_TOTAL);
    }
    hx_tag("tsan_reports=%d", NREP_TOTAL > 99 ? 99 : NREP_TOTAL);
    if (harness_race) hx_tag("harness_race");
    for (int t = 0; t < T; t++) {
      free(W[t].dig);
      free(W[t].opix);
      free(W[t].t0);
      free(W[t].t1);
      free(W[t].failbuf);
    }
    free(W);
    free(th);
    pthread_barrier_destroy(&bar);
    hx_end();
  }
  return 0;
}
