#ifndef VERIF_MON_H
#define VERIF_MON_H
#include "ops.h"

typedef struct {
  const char *monitor;
  uint64_t seed;
  long from, to;
  int tier;
  int maxdim;
  const char *fam;  /* comma separated families or NULL = all */
  const char *ops;  /* comma separated op names or NULL */
  const char *arg;  /* free monitor-specific argument */
  const char *dir;  /* scratch dir */
  int policy;       /* 0 own, 1 windows */
  int nthreads;
  int reps;
  int balance;      /* allocation balance check */
  int poison;
  long fail_at;
} mon_args_t;

/* op selection */
int mon_select_ops(const mon_args_t *a, const op_t **out, int cap);
uint64_t mon_hash(const char *s);
void mon_case_rng(rng_t *r, const mon_args_t *a, const char *salt, long idx);
/* effective number of library blocks live (excluding blocks parked in the block cache) */
long mon_live_effective(void);

int mon_func(const mon_args_t *a);
int mon_views(const mon_args_t *a);
int mon_pure(const mon_args_t *a);
int mon_digest(const mon_args_t *a);
int mon_alloc(const mon_args_t *a);
int mon_illdim(const mon_args_t *a);
int mon_threads(const mon_args_t *a);
int mon_io(const mon_args_t *a);
int mon_gray(const mon_args_t *a);
int mon_allocfail(const mon_args_t *a);

#endif
