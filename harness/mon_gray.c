/* C19: Gray code tables and word-level kernels; finite domains enumerated completely.
 * Each "case" is one sub-check (idx selects it) so that crashes are attributed. */
#include "mon.h"
#include <m4ri/graycode.h>
#include <m4ri/parity.h>
#include <stdarg.h>
#include <stdio.h>
#include <stdlib.h>
#include <string.h>

static long NEVAL;
static void fail(const char *what, const char *fmt, ...) {
  char key[128], msg[512];
  va_list ap;
  va_start(ap, fmt);
  vsnprintf(msg, sizeof msg, fmt, ap);
  va_end(ap);
  snprintf(key, sizeof key, "%s|finite|-|wrong-result", what);
  hx_fail(key, "%s", msg);
}

static void chk_codebook(int k) {
  int n = 1 << k;
  const int *ord = m4ri_codebook[k]->ord, *inc = m4ri_codebook[k]->inc;
  unsigned char *seen = calloc(n, 1);
  for (int i = 0; i < n; i++) {
    NEVAL++;
    if (ord[i] < 0 || ord[i] >= n || seen[ord[i]]) {
      fail("m4ri_codebook", "k=%d: ord[%d]=%d is out of range or repeated", k, i, ord[i]);
      break;
    }
    seen[ord[i]] = 1;
  }
  free(seen);
  if (ord[0] != 0) fail("m4ri_codebook", "k=%d: ord[0]=%d, tables are built from the zero row", k, ord[0]);
  for (int i = 1; i <= n; i++) {
    /* consecutive entries (with wrap-around) differ in exactly one bit, and inc[i-1] is that bit's index */
    int a = ord[i - 1], b = ord[i % n], d = a ^ b;
    NEVAL++;
    if (d == 0 || (d & (d - 1))) {
      fail("m4ri_codebook", "k=%d: ord[%d]=%d and ord[%d]=%d differ in %d bits", k, i - 1, a, i % n, b, __builtin_popcount(d));
      return;
    }
    int bit = __builtin_ctz(d);
    if (inc[i - 1] < 0 || inc[i - 1] >= k) {
      fail("m4ri_codebook", "k=%d: inc[%d]=%d out of range", k, i - 1, inc[i - 1]);
      return;
    }
    /* the recorded increment is the index of the changed bit (mzd_make_table adds row r + inc) */
    if (inc[i - 1] != bit) {
      fail("m4ri_codebook", "k=%d: entries %d->%d flip bit %d but inc=%d", k, i - 1, i % n, bit, inc[i - 1]);
      return;
    }
  }
}

/* lookup table built by successive single-row additions returns, for every pattern x, the sum of the rows selected by x */
static void chk_make_table(rng_t *r, int k) {
  int ncols = rng_chance(r, 1, 2) ? rng_int(r, 1, 200) : gen_dim(r, 300);
  int nrows = k + rng_int(r, 0, 5), r0 = rng_int(r, 0, nrows - k);
  int c0 = rng_chance(r, 1, 2) ? 0 : rng_int(r, 0, ncols - 1);
  rm_t *Mv = gen_mat(r, nrows, ncols, PAT_DENSE);
  /* the source is a view with foreign bits behind its last column half of the time: they must not reach the table */
  opnd_t *M = opnd_make(r, Mv, rng_chance(r, 1, 2) ? PL_OWN : (rng_chance(r, 1, 2) ? PL_WIN_EVEN : PL_WIN_ODD));
  mzd_t *T = mzd_init(1 << k, ncols);
  rci_t *L = calloc((size_t)1 << k, sizeof(rci_t));
  /* dirty table: make_table must define every row it hands out */
  for (int i = 1; i < (1 << k); i++)
    for (int j = 0; j < ncols; j++) raw_set(T, i, j, (int)(rng_u64(r) & 1));
  mzd_make_table(M->M, r0, c0, k, T, L);
  int homecol = (c0 / 64) * 64;
  for (int x = 0; x < (1 << k); x++) {
    NEVAL++;
    if (L[x] < 0 || L[x] >= (1 << k)) {
      fail("mzd_make_table", "k=%d: L[%d]=%d out of range", k, x, L[x]);
      break;
    }
    int bad = 0;
    for (int j = c0; j < ncols && !bad; j++) {
      int e = 0;
      for (int b = 0; b < k; b++)
        if ((x >> b) & 1) e ^= RM(Mv, r0 + b, j);
      if (raw_get(T, L[x], j) != e) bad = 1 + j;
    }
    /* columns of the home word left of c are masked to zero */
    for (int j = homecol; j < c0 && !bad; j++)
      if (raw_get(T, L[x], j)) bad = 1 + j;
    if (bad) {
      fail("mzd_make_table", "k=%d r=%d c=%d ncols=%d: T[L[%d]] is not the sum of the rows selected by x (column %d)", k, r0, c0, ncols, x, bad - 1);
      break;
    }
  }
  if (mzd_padding_bits(T)) fail("mzd_make_table", "k=%d r=%d c=%d ncols=%d source %s: table has non-zero bits beyond its last column", k, r0, c0, ncols, opnd_cls(M));
  free(L);
  mzd_free(T);
  opnd_free(M);
  rm_free(Mv);
}

static word model_parity_word(const word *buf) {
  word res = 0;
  for (int i = 0; i < 64; i++) {
    int p = 0;
    for (int b = 0; b < 64; b++) p ^= (int)((buf[i] >> b) & 1);
    res |= (word)p << i;
  }
  return res;
}

static void chk_parity(rng_t *r, int phase) {
  word buf[64];
  if (phase == 0) {
    /* complete basis: every single-bit input in every position */
    for (int i = 0; i < 64; i++)
      for (int b = 0; b < 64; b++) {
        memset(buf, 0, sizeof buf);
        buf[i] = (word)1 << b;
        NEVAL++;
        word got = m4ri_parity64(buf), exp = (word)1 << i;
        if (got != exp) {
          fail("m4ri_parity64", "single bit word %d bit %d: got %016llx expected %016llx", i, b, (unsigned long long)got, (unsigned long long)exp);
          return;
        }
      }
    memset(buf, 0, sizeof buf);
    if (m4ri_parity64(buf)) fail("m4ri_parity64", "zero buffer gives non-zero");
  } else {
    for (int t = 0; t < 20000; t++) {
      for (int i = 0; i < 64; i++) buf[i] = rng_u64(r) & (rng_chance(r, 1, 4) ? rng_u64(r) : ~(word)0);
      NEVAL++;
      word got = m4ri_parity64(buf), exp = model_parity_word(buf);
      if (got != exp) {
        fail("m4ri_parity64", "random buffer %d: got %016llx expected %016llx", t, (unsigned long long)got, (unsigned long long)exp);
        return;
      }
    }
  }
}

static void chk_masks(void) {
  for (int n = 0; n <= 64; n++) {
    NEVAL++;
    word got = __M4RI_LEFT_BITMASK(n), exp = 0;
    int cnt = (n % 64 == 0) ? 64 : n; /* documented: 0 behaves as 64 */
    for (int b = 0; b < cnt; b++) exp |= (word)1 << b;
    if (got != exp) fail("__M4RI_LEFT_BITMASK", "n=%d: got %016llx expected %016llx", n, (unsigned long long)got, (unsigned long long)exp);
  }
  for (int n = 1; n <= 64; n++) {
    NEVAL++;
    word got = __M4RI_RIGHT_BITMASK(n), exp = 0;
    for (int b = 64 - n; b < 64; b++) exp |= (word)1 << b;
    if (got != exp) fail("__M4RI_RIGHT_BITMASK", "n=%d: got %016llx expected %016llx", n, (unsigned long long)got, (unsigned long long)exp);
  }
  for (int o = 0; o < 64; o++)
    for (int n = 1; n <= 64 - o; n++) {
      NEVAL++;
      word got = __M4RI_MIDDLE_BITMASK(n, o), exp = 0;
      for (int b = o; b < o + n; b++) exp |= (word)1 << b;
      if (got != exp) {
        fail("__M4RI_MIDDLE_BITMASK", "n=%d offset=%d: got %016llx expected %016llx", n, o, (unsigned long long)got, (unsigned long long)exp);
        return;
      }
    }
}

static word model_reverse(word v) {
  word x = 0;
  for (int b = 0; b < 64; b++)
    if ((v >> b) & 1) x |= (word)1 << (63 - b);
  return x;
}
static void chk_swapbits(rng_t *r) {
  for (int b = 0; b < 64; b++) {
    NEVAL++;
    word v = (word)1 << b;
    if (m4ri_swap_bits(v) != model_reverse(v)) {
      fail("m4ri_swap_bits", "single bit %d", b);
      return;
    }
  }
  for (int t = 0; t < 100000; t++) {
    NEVAL++;
    word v = rng_u64(r);
    if (m4ri_swap_bits(v) != model_reverse(v)) {
      fail("m4ri_swap_bits", "random word %016llx", (unsigned long long)v);
      return;
    }
  }
}

static void chk_spread(rng_t *r) {
  for (int len = 1; len <= 16; len++)
    for (int t = 0; t < 600; t++) {
      /* random strictly increasing positions Q in [base, base+64) */
      rci_t Q[16];
      int base = rng_chance(r, 1, 2) ? 0 : rng_int(r, 0, 500);
      int pos[64], np = 64;
      for (int i = 0; i < 64; i++) pos[i] = i;
      for (int i = 0; i < len; i++) {
        int k = rng_int(r, i, np - 1), tt = pos[i];
        pos[i] = pos[k];
        pos[k] = tt;
      }
      /* sort first len */
      for (int i = 0; i < len; i++)
        for (int j = i + 1; j < len; j++)
          if (pos[j] < pos[i]) {
            int tt = pos[i];
            pos[i] = pos[j];
            pos[j] = tt;
          }
      for (int i = 0; i < len; i++) Q[i] = base + pos[i];
      word from = rng_u64(r) & ((len == 64) ? ~(word)0 : (((word)1 << len) - 1));
      if (t < len) from = (word)1 << t; /* complete basis */
      NEVAL++;
      word sp = m4ri_spread_bits(from, Q, len, base), exp = 0;
      for (int i = 0; i < len; i++)
        if ((from >> i) & 1) exp |= (word)1 << (Q[i] - base);
      if (sp != exp) {
        fail("m4ri_spread_bits", "len=%d base=%d from=%llx: got %016llx expected %016llx", len, base, (unsigned long long)from, (unsigned long long)sp,
             (unsigned long long)exp);
        return;
      }
      word back = m4ri_shrink_bits(sp, Q, len, base);
      if (back != from) {
        fail("m4ri_shrink_bits", "len=%d: shrink(spread(x)) = %llx != x = %llx", len, (unsigned long long)back, (unsigned long long)from);
        return;
      }
      /* shrink of an arbitrary word picks exactly the bits at Q */
      word any = rng_u64(r), e2 = 0;
      for (int i = 0; i < len; i++)
        if ((any >> (Q[i] - base)) & 1) e2 |= (word)1 << i;
      if (m4ri_shrink_bits(any, Q, len, base) != e2) {
        fail("m4ri_shrink_bits", "len=%d: wrong bits selected from %016llx", len, (unsigned long long)any);
        return;
      }
    }
}

static int lsbi(word w) { return w ? __builtin_ctzll(w) : 64; }
static void chk_lesser_lsb(rng_t *r) {
  word v[140];
  int n = 0;
  v[n++] = 0;
  for (int b = 0; b < 64; b++) v[n++] = (word)1 << b;
  while (n < 140) v[n++] = rng_u64(r) << rng_int(r, 0, 63);
  for (int i = 0; i < n; i++)
    for (int j = 0; j < n; j++) {
      NEVAL++;
      int got = m4ri_lesser_LSB(v[i], v[j]) != 0, exp = lsbi(v[i]) < lsbi(v[j]);
      if (got != exp) {
        fail("m4ri_lesser_LSB", "a=%016llx b=%016llx: got %d expected %d", (unsigned long long)v[i], (unsigned long long)v[j], got, exp);
        return;
      }
    }
}

/* sub-checks: 0..15 codebook k=1..16 | 16..31 make_table k=1..16 (k>12: sampled shapes, all 2^k patterns) | 32 parity basis | 33 parity random |
 * 34 masks | 35 swap_bits | 36 spread/shrink | 37 lesser_LSB | >= 38: more make_table shapes */
int mon_gray(const mon_args_t *a) {
  for (long idx = a->from; idx < a->to; idx++) {
    rng_t r;
    mon_case_rng(&r, a, "gray", idx);
    hx_reset(idx);
    char what[64];
    int sub = (int)idx;
    if (sub < 16) snprintf(what, sizeof what, "codebook k=%d", sub + 1);
    else if (sub < 32) snprintf(what, sizeof what, "make_table k=%d", sub - 15);
    else if (sub == 32) snprintf(what, sizeof what, "parity64 basis");
    else if (sub == 33) snprintf(what, sizeof what, "parity64 random");
    else if (sub == 34) snprintf(what, sizeof what, "bitmasks");
    else if (sub == 35) snprintf(what, sizeof what, "swap_bits");
    else if (sub == 36) snprintf(what, sizeof what, "spread/shrink");
    else if (sub == 37) snprintf(what, sizeof what, "lesser_LSB");
    else snprintf(what, sizeof what, "make_table k=%d (extra shape)", 1 + (sub - 38) % 12);
    hx_begin(idx, "gray|finite|-", "%s", what);
    NEVAL = 0;
    if (sub < 16) chk_codebook(sub + 1);
    else if (sub < 32) chk_make_table(&r, sub - 15);
    else if (sub == 32) chk_parity(&r, 0);
    else if (sub == 33) chk_parity(&r, 1);
    else if (sub == 34) chk_masks();
    else if (sub == 35) chk_swapbits(&r);
    else if (sub == 36) chk_spread(&r);
    else if (sub == 37) chk_lesser_lsb(&r);
    else chk_make_table(&r, 1 + (sub - 38) % 12);
    hx_cls("%s", what);
    hx_tag("evals=%ld", NEVAL);
    HX.nontrivial = 1;
    hx_end();
  }
  return 0;
}
