/* C14: allocation histories against a shadow model of the heap of matrices. */
#include "mon.h"
#include <stdarg.h>
#include <stdio.h>
#include <stdlib.h>
#include <string.h>

#ifdef M4RI_VERIF
extern void mzd_verif_header_cache_stats(int *blocks, int *slots_in_use);
extern int mzd_verif_header_cache_capacity(void);
#endif
#if __M4RI_ENABLE_MMC
extern mmb_t m4ri_mmc_cache[];
#endif

typedef struct {
  mzd_t *M;
  int parent; /* index of the owning object or -1 */
  int nchild;
  int r0, c0;
  int rows, cols;
  uint64_t canary;
  int live;
} obj_t;

#define MAXOBJ 6000
static obj_t O[MAXOBJ];
static int NO;
static char KEYP[64];
static void *FREED[64];
static size_t FREEDSZ[64];
static int NFREED;
static int MAXLIVE;

static void afail(const char *kind, const char *fmt, ...) {
  char key[160], msg[600];
  va_list ap;
  va_start(ap, fmt);
  vsnprintf(msg, sizeof msg, fmt, ap);
  va_end(ap);
  snprintf(key, sizeof key, "%s|%s", KEYP, kind);
  hx_fail(key, "%s", msg);
}

static uint64_t cstream(uint64_t seed, int i, int wj) {
  uint64_t x = seed ^ ((uint64_t)i * 0x9E3779B97F4A7C15ULL) ^ ((uint64_t)wj * 0xC2B2AE3D27D4EB4FULL);
  x ^= x >> 31;
  x *= 0xD6E8FEB86659FD93ULL;
  x ^= x >> 29;
  return x | 1; /* never zero */
}
static word lmask(int ncols) { return (ncols % 64) ? (((word)1 << (ncols % 64)) - 1) : ~(word)0; }

/* owned matrix: fill valid columns with its canary stream */
static void fill_canary(obj_t *o) {
  mzd_t *M = o->M;
  if (!M->data) return;
  int w = (o->cols + 63) / 64;
  for (int i = 0; i < o->rows; i++) {
    word *row = M->data + (size_t)i * M->rowstride;
    for (int j = 0; j < w; j++) row[j] = cstream(o->canary, i, j);
    row[w - 1] &= lmask(o->cols);
  }
}
static long check_canary(const obj_t *o) {
  const mzd_t *M = o->M;
  if (!M->data) return 0;
  int w = (o->cols + 63) / 64;
  long bad = 0;
  for (int i = 0; i < o->rows; i++) {
    const word *row = M->data + (size_t)i * M->rowstride;
    for (int j = 0; j < w; j++) {
      word e = cstream(o->canary, i, j);
      if (j == w - 1) e &= lmask(o->cols);
      bad += row[j] != e;
    }
    for (int j = w; j < M->rowstride; j++) bad += row[j] != 0; /* rowstride padding stays zero */
  }
  return bad;
}
/* window: must alias the parent's canary */
static long check_window(const obj_t *o) {
  const obj_t *p = &O[o->parent];
  int r0 = o->r0, c0 = o->c0;
  while (p->parent >= 0) { /* window of a window: accumulate offsets up to the owner */
    r0 += p->r0;
    c0 += p->c0;
    p = &O[p->parent];
  }
  const mzd_t *W = o->M;
  long bad = 0;
  int w = (o->cols + 63) / 64;
  for (int i = 0; i < o->rows; i++) {
    const word *row = W->data + (size_t)i * W->rowstride;
    for (int j = 0; j < w; j++) {
      word e = cstream(p->canary, r0 + i, c0 / 64 + j);
      int pw = (p->cols + 63) / 64;
      if (c0 / 64 + j == pw - 1) e &= lmask(p->cols);
      word m = (j == w - 1) ? lmask(o->cols) : ~(word)0;
      bad += ((row[j] ^ e) & m) != 0;
    }
  }
  return bad;
}

static int nlive(void) {
  int n = 0;
  for (int i = 0; i < NO; i++) n += O[i].live;
  return n;
}

static void check_state(int deep) {
  /* block cache: no cached pointer equals a live data pointer; no duplicates; size>0 => data != NULL */
#if __M4RI_ENABLE_MMC
  for (int i = 0; i < __M4RI_MMC_NBLOCKS; i++) {
    if (!m4ri_mmc_cache[i].size) continue;
    if (!m4ri_mmc_cache[i].data) afail("cache-corrupt", "block cache slot %d has size %zu but NULL data", i, m4ri_mmc_cache[i].size);
    for (int j = i + 1; j < __M4RI_MMC_NBLOCKS; j++)
      if (m4ri_mmc_cache[j].size && m4ri_mmc_cache[j].data == m4ri_mmc_cache[i].data) afail("cache-corrupt", "block cache slots %d and %d hold the same block", i, j);
    for (int k = 0; k < NO; k++)
      if (O[k].live && O[k].parent < 0 && O[k].M->data && (void *)O[k].M->data == m4ri_mmc_cache[i].data)
        afail("cache-corrupt", "block cache slot %d holds the storage of live matrix #%d", i, k);
  }
#endif
#ifdef M4RI_VERIF
  {
    int blocks = 0, used = 0, live = nlive();
    mzd_verif_header_cache_stats(&blocks, &used);
#if __M4RI_ENABLE_MZD_CACHE
    if (live > MAXLIVE) MAXLIVE = live;
    int cap = mzd_verif_header_cache_capacity();
    /* beyond the pool's capacity headers come from plain malloc and stay outside the pool for their lifetime */
    if (MAXLIVE < cap ? used != live : (used > live || used > cap))
      afail("header-count", "header pool reports %d slots in use, the shadow holds %d live matrices (max simultaneously live so far %d, pool capacity %d)", used, live, MAXLIVE, cap);
    hx_tag("hdrblocks=%d", blocks > 16 ? 17 : blocks);
    if (live > cap) hx_tag("header-spill");
#endif
  }
#endif
  if (!deep) return;
  for (int k = 0; k < NO; k++) {
    if (!O[k].live) continue;
    long bad = O[k].parent < 0 ? check_canary(&O[k]) : check_window(&O[k]);
    if (bad) {
      afail(O[k].parent < 0 ? "live-matrix-corrupted" : "window-content-changed", "object #%d (%dx%d): %ld words differ from its canary", k, O[k].rows, O[k].cols, bad);
      if (O[k].parent < 0) fill_canary(&O[k]);
    }
  }
}

static int do_init(rng_t *r, int rows, int cols) {
  if (NO >= MAXOBJ) return -1;
  mzd_t *M = mzd_init(rows, cols);
  obj_t *o = &O[NO];
  memset(o, 0, sizeof *o);
  o->M = M;
  o->parent = -1;
  o->rows = rows;
  o->cols = cols;
  o->canary = rng_u64(r);
  o->live = 1;
  if (M->nrows != rows || M->ncols != cols) afail("bad-header", "mzd_init(%d,%d) returned %dx%d", rows, cols, M->nrows, M->ncols);
  if (rows && cols) {
    if (!M->data)
      afail("bad-header", "mzd_init(%d,%d): NULL data", rows, cols);
    else {
      /* entirely zero, including rowstride padding */
      size_t nw = (size_t)rows * M->rowstride, nz = 0;
      for (size_t i = 0; i < nw; i++) nz += M->data[i] != 0;
      if (nz) afail("fresh-not-zero", "mzd_init(%d,%d): %zu non-zero words in a fresh matrix", rows, cols, nz);
      /* reuse observed? */
      for (int k = 0; k < NFREED; k++)
        if (FREED[k] == (void *)M->data) {
          hx_tag("reuse");
          FREED[k] = NULL;
        }
      /* disjoint from every live owned matrix */
      uintptr_t a0 = (uintptr_t)M->data, a1 = a0 + nw * 8;
      for (int k = 0; k < NO; k++) {
        if (!O[k].live || O[k].parent >= 0 || !O[k].M->data) continue;
        uintptr_t b0 = (uintptr_t)O[k].M->data, b1 = b0 + (size_t)O[k].rows * O[k].M->rowstride * 8;
        if (a0 < b1 && b0 < a1) afail("storage-overlap", "fresh %dx%d matrix overlaps the storage of live matrix #%d (%dx%d)", rows, cols, k, O[k].rows, O[k].cols);
      }
    }
  }
  /* header disjoint from every live header */
  for (int k = 0; k < NO; k++)
    if (O[k].live) {
      intptr_t d = (intptr_t)((char *)O[k].M - (char *)M);
      if (d < 0) d = -d;
      if (d < (intptr_t)sizeof(mzd_t)) afail("header-overlap", "header of the new matrix overlaps the header of live object #%d", k);
    }
  NO++;
  fill_canary(o);
  return NO - 1;
}
static int do_window(rng_t *r, int p) {
  if (NO >= MAXOBJ) return -1;
  obj_t *po = &O[p];
  if (!po->rows || !po->cols) return -1;
  int lowr = rng_int(r, 0, po->rows - 1), highr = rng_int(r, lowr + 1, po->rows);
  int wmax = (po->cols - 1) / 64;
  int lowc = 64 * rng_int(r, 0, wmax), highc = rng_int(r, lowc + 1, po->cols);
  mzd_t *W = mzd_init_window(po->M, lowr, lowc, highr, highc);
  obj_t *o = &O[NO];
  memset(o, 0, sizeof *o);
  o->M = W;
  o->parent = p;
  o->r0 = lowr;
  o->c0 = lowc;
  o->rows = highr - lowr;
  o->cols = highc - lowc;
  o->live = 1;
  po->nchild++;
  if (W->nrows != o->rows || W->ncols != o->cols) afail("bad-header", "window has %dx%d, expected %dx%d", W->nrows, W->ncols, o->rows, o->cols);
  if (W->data != po->M->data + (size_t)lowr * po->M->rowstride + lowc / 64) afail("bad-header", "window data pointer is not inside its parent");
  for (int k = 0; k < NO; k++)
    if (O[k].live) {
      intptr_t d = (intptr_t)((char *)O[k].M - (char *)W);
      if (d < 0) d = -d;
      if (d < (intptr_t)sizeof(mzd_t)) afail("header-overlap", "header of the new window overlaps the header of live object #%d", k);
    }
  NO++;
  hx_tag("window");
  return NO - 1;
}
static void do_free(int k) {
  obj_t *o = &O[k];
  if (!o->live || o->nchild) return;
  if (o->parent < 0 && o->M->data) {
    FREED[NFREED % 64] = o->M->data;
    FREEDSZ[NFREED % 64] = (size_t)o->rows * o->M->rowstride * 8;
    NFREED++;
    if (NFREED > 64) NFREED = 64;
  }
  mzd_free(o->M);
  o->live = 0;
  if (o->parent >= 0) O[o->parent].nchild--;
}
static int pick_live(rng_t *r, int want_owner) {
  int cand[64], nc = 0;
  for (int t = 0; t < 200 && nc < 64; t++) {
    int k = rng_int(r, 0, NO - 1);
    if (O[k].live && (!want_owner || 1)) cand[nc++] = k;
  }
  return nc ? cand[rng_int(r, 0, nc - 1)] : -1;
}

static long CODEBOOK_BLOCKS = -1;

int mon_alloc(const mon_args_t *a) {
  if (CODEBOOK_BLOCKS < 0) {
    /* make the code book blocks visible to the live-set tracker */
    m4ri_fini();
    long b0 = aw_live_blocks();
    m4ri_init();
    CODEBOOK_BLOCKS = aw_live_blocks() - b0;
  }
  static const char *HN[] = {"evict17", "samesize-reuse", "threshold", "headers>64", "headers>1024", "unlink-middle", "zero-area", "random-few-sizes", "random", "bounded-exhaustive"};
  for (long idx = a->from; idx < a->to; idx++) {
    rng_t r;
    mon_case_rng(&r, a, "alloc", idx);
    int kind = (int)(idx % 9);
    if (kind == 4 && (idx / 9) % 4 != 0) kind = 8; /* the 1024-header history is expensive: every 4th round */
    int exh_depth = 0;
    if (a->arg && !strncmp(a->arg, "exh:", 4)) {
      kind = 9;
      exh_depth = atoi(a->arg + 4);
    }
    hx_reset(idx);
    NO = 0;
    NFREED = 0;
    MAXLIVE = 0;
    snprintf(KEYP, sizeof KEYP, "alloc|%s|-", HN[kind]);
    long live0 = aw_live_blocks();
    AW_poison = 3; /* fresh blocks from the system allocator are not zero: mzd_init has to clear them itself */
    char exhseq[40] = "";
    if (kind == 9) {
      long code = idx / 4;
      int d;
      for (d = 0; d < exh_depth && d < 38; d++, code /= 8) exhseq[d] = (char)('0' + code % 8);
      exhseq[d] = 0;
      hx_begin(idx, KEYP, "history=%s prefill-state=%ld ops=%s (0-2 init 1-3x64, 3 init above threshold, 4 free oldest, 5 free newest, 6 window, 7 cache cleanup)", HN[kind], idx % 4, exhseq);
    } else
      hx_begin(idx, KEYP, "history=%s", HN[kind]);
    int steps = 0, every = a->tier ? 1 : 16;
    size_t thr = (size_t)__M4RI_CPU_L3_CACHE;
    switch (kind) {
    case 0: { /* 17+ distinct freed sizes -> eviction from the 16-slot cache, then re-allocation of each size */
      int n = rng_int(&r, 17, 40), ids[40];
      for (int i = 0; i < n; i++) ids[i] = do_init(&r, 1 + i, 64 * (1 + i % 3) + rng_int(&r, 1, 60));
      check_state(1);
      for (int i = 0; i < n; i++) {
        do_free(ids[i]);
        if (i % 4 == 0) check_state(1);
      }
      hx_tag("eviction");
      for (int i = 0; i < n; i++) do_init(&r, 1 + i, 64 * (1 + i % 3) + rng_int(&r, 1, 60));
      check_state(1);
      steps = 3 * n;
      break;
    }
    case 1: { /* equal sizes: exact-size reuse of a dirty block */
      int rows = rng_int(&r, 1, 40), cols = rng_int(&r, 1, 400);
      for (int t = 0; t < 60; t++) {
        int n = rng_int(&r, 1, 6), ids[6];
        for (int i = 0; i < n; i++) ids[i] = do_init(&r, rows, cols);
        check_state(t % 4 == 0);
        for (int i = 0; i < n; i++)
          if (rng_chance(&r, 4, 5)) do_free(ids[i]);
        steps += 2 * n;
      }
      check_state(1);
      break;
    }
    case 2: { /* sizes just below / at / above the caching threshold */
      for (int t = 0; t < 12; t++) {
        size_t bytes = thr + (size_t)(rng_int(&r, -2, 2)) * 16;
        int cols = 128 * rng_int(&r, 1, 4); /* even width: rowstride == width */
        size_t rowbytes = (size_t)cols / 8;
        int rows = (int)(bytes / rowbytes);
        if (rows < 1) rows = 1;
        if ((size_t)rows * rowbytes > (size_t)80 << 20) continue; /* keep the host triple affordable */
        int id = do_init(&r, rows, cols);
        check_state(0);
        do_free(id);
        int id2 = do_init(&r, rows, cols);
        check_state(t == 0);
        do_free(id2);
        steps += 4;
        hx_tag((size_t)rows * rowbytes < thr ? "below-threshold" : (size_t)rows * rowbytes == thr ? "at-threshold" : "above-threshold");
      }
      break;
    }
    case 3:
    case 4:
    case 5: { /* many simultaneously live headers */
      int n = kind == 3 ? rng_int(&r, 65, 200) : kind == 4 ? rng_int(&r, 1025, 1100) : rng_int(&r, 200, 330);
      for (int i = 0; i < n; i++) {
        int id = do_init(&r, rng_int(&r, 1, 3), rng_int(&r, 1, 130));
        if (rng_chance(&r, 1, 10) && id >= 0) do_window(&r, id);
      }
      check_state(1);
      hx_tag(kind == 4 ? "headers>1024" : "headers>64");
      if (kind == 5) {
        /* empty a middle header block: free objects 64..127 (allocation order ~ slot order) */
        for (int k = NO - 1; k >= 0; k--)
          if (O[k].live && O[k].parent >= 0) do_free(k);
        for (int k = 64; k < 128 && k < NO; k++) do_free(k);
        hx_tag("unlink");
        check_state(1);
        for (int i = 0; i < 80; i++) do_init(&r, 2, rng_int(&r, 1, 100));
        check_state(1);
      }
      steps = NO;
      break;
    }
    case 6: { /* zero-area matrices */
      for (int t = 0; t < 40; t++) {
        int id = rng_chance(&r, 1, 2) ? do_init(&r, 0, rng_int(&r, 0, 200)) : do_init(&r, rng_int(&r, 0, 50), 0);
        int id2 = do_init(&r, rng_int(&r, 1, 5), rng_int(&r, 1, 70));
        if (rng_chance(&r, 1, 2)) do_free(id);
        if (rng_chance(&r, 1, 2)) do_free(id2);
        steps += 3;
      }
      hx_tag("zero-area");
      check_state(1);
      break;
    }
    case 9: {
      /* bounded-exhaustive: the case index is the code of one operation sequence (base 8, exh_depth digits) started from one of
       * three prepared states; all 3 * 8^depth sequences are enumerated by the orchestrator.  Meant for the build whose cache
       * capacities are overridden to 2 (hook), where eviction, above-threshold bypass, header-block creation / unlinking and
       * the spill to plain malloc are all within reach of 5-7 operations. */
      int cap = mzd_verif_header_cache_capacity();
      int pre = (int)(idx % 4);
      long code = idx / 4;
      /* prepared states: 0 empty | 1 just below the second header block | 2 just below the pool's capacity (next headers spill to
       * plain malloc) | 3 three header blocks of which the first two hold a single live header each: "free oldest" twice empties the
       * static block and then the middle block while the third is still linked behind it */
      int nprefill = pre == 0 ? 0 : pre == 1 ? 62 : pre == 2 ? (cap ? cap - 2 : 190) : 130;
      for (int i = 0; i < nprefill; i++) do_init(&r, 1, 1 + i % 60);
      if (pre == 3) {
        for (int k = 0; k < 128; k++)
          if (k != 63 && k != 64) do_free(k);
        m4ri_mmc_cleanup();
      }
      check_state(1);
      char seq[40];
      int sl = 0;
      int big_rows = (int)(thr / 128) + 9; /* x 1024 columns: above the caching threshold */
      for (int d = 0; d < exh_depth; d++) {
        int op = (int)(code % 8);
        code /= 8;
        seq[sl++] = (char)('0' + op);
        switch (op) {
        case 0: do_init(&r, 1, 64); break;
        case 1: do_init(&r, 2, 64); break;
        case 2: do_init(&r, 3, 64); break;
        case 3:
          if (big_rows <= 4000) do_init(&r, big_rows, 1024);
          break;
        case 4: /* free the oldest live object that can be freed */
          for (int k = 0; k < NO; k++)
            if (O[k].live && !O[k].nchild) {
              do_free(k);
              break;
            }
          break;
        case 5: /* free the newest */
          for (int k = NO - 1; k >= 0; k--)
            if (O[k].live && !O[k].nchild) {
              do_free(k);
              break;
            }
          break;
        case 6: /* a window into the newest live matrix that owns storage */
          for (int k = NO - 1; k >= 0; k--)
            if (O[k].live && O[k].parent < 0 && O[k].rows && O[k].cols) {
              do_window(&r, k);
              break;
            }
          break;
        case 7: m4ri_mmc_cleanup(); break;
        }
        check_state(1);
      }
      seq[sl] = 0;
      hx_tag("prefill=%d", nprefill);
      steps = exh_depth;
      break;
    }
    default: { /* random histories: few distinct sizes, many operations */
      int nsz = kind == 7 ? rng_int(&r, 2, 5) : rng_int(&r, 6, 30);
      int szr[30], szc[30];
      for (int i = 0; i < nsz; i++) {
        szr[i] = rng_int(&r, 1, 24);
        szc[i] = rng_chance(&r, 1, 2) ? rng_int(&r, 1, 200) : 64 * rng_int(&r, 1, 6);
      }
      int n = a->tier ? rng_int(&r, 400, 5000) : rng_int(&r, 200, 900);
      for (int s = 0; s < n && NO < MAXOBJ - 2; s++) {
        int c = rng_int(&r, 0, 99);
        if (c < 42 || nlive() == 0) {
          int i = rng_int(&r, 0, nsz - 1);
          do_init(&r, szr[i], szc[i]);
        } else if (c < 55) {
          int p = pick_live(&r, 0);
          if (p >= 0) do_window(&r, p);
        } else {
          int k = pick_live(&r, 0);
          if (k >= 0) do_free(k);
        }
        if (s % every == 0) check_state(s % (every * 8) == 0);
      }
      check_state(1);
      steps = n;
      break;
    }
    }
    /* free everything in a random order (children before parents) */
    int live = nlive();
    while (live > 0) {
      int k = rng_int(&r, 0, NO - 1), tries = 0;
      while ((!O[k].live || O[k].nchild) && tries++ < NO) k = (k + 1) % NO;
      if (!O[k].live || O[k].nchild) break;
      do_free(k);
      live--;
      if (live % 97 == 0) check_state(1);
    }
    check_state(0);
    /* finalise: nothing may be retained */
    m4ri_fini();
    long liveF = aw_live_blocks();
    if (liveF != live0 - CODEBOOK_BLOCKS)
      afail("retained-after-fini", "%ld library blocks still allocated after everything was freed and m4ri_fini() (expected %ld)", liveF - (live0 - CODEBOOK_BLOCKS), 0L);
#ifdef M4RI_VERIF
    {
      int blocks = 0, used = 0;
      mzd_verif_header_cache_stats(&blocks, &used);
      if (used != 0) afail("header-count", "%d header slots still in use after every matrix was freed", used);
#if __M4RI_ENABLE_MZD_CACHE
      if (blocks != 1) afail("header-count", "%d header blocks remain after every matrix was freed (expected the static one)", blocks);
#endif
    }
#endif
    AW_poison = 0;
    m4ri_init();
    if (kind == 9)
      hx_cls("%s:%ld:%s", HN[kind], idx % 4, exhseq);
    else
      hx_cls("%s:%d", HN[kind], steps > 2000 ? 9 : steps / 250);
    hx_tag("%s", HN[kind]);
    HX.nontrivial = 1;
    hx_end();
  }
  return 0;
}
