/* Independent GF(2) reference model (see ref.h).  Plain textbook code. */
#include "ref.h"
#include <stdio.h>
#include <stdlib.h>
#include <string.h>

static void *xcalloc(size_t n, size_t s) {
  void *p = calloc(n ? n : 1, s ? s : 1);
  if (!p) {
    fprintf(stderr, "HARNESS: out of memory\n");
    _exit(2);
  }
  return p;
}
extern void _exit(int);

rm_t *rm_new(int m, int n) {
  rm_t *A = xcalloc(1, sizeof(rm_t));
  A->m = m;
  A->n = n;
  A->e = xcalloc((size_t)m * n + 32, 1);
  return A;
}
void rm_free(rm_t *A) {
  if (!A) return;
  free(A->e);
  free(A);
}
rm_t *rm_copy(const rm_t *A) {
  rm_t *B = rm_new(A->m, A->n);
  memcpy(B->e, A->e, (size_t)A->m * A->n);
  return B;
}
int rm_eq(const rm_t *A, const rm_t *B) {
  if (A->m != B->m || A->n != B->n) return 0;
  return memcmp(A->e, B->e, (size_t)A->m * A->n) == 0;
}
long rm_first_diff(const rm_t *A, const rm_t *B) {
  size_t t = (size_t)A->m * A->n;
  for (size_t i = 0; i < t; i++)
    if (A->e[i] != B->e[i]) return (long)i;
  return -1;
}
long rm_count_diff(const rm_t *A, const rm_t *B) {
  size_t t = (size_t)A->m * A->n;
  long c = 0;
  for (size_t i = 0; i < t; i++) c += A->e[i] != B->e[i];
  return c;
}
int rm_is_zero(const rm_t *A) {
  size_t t = (size_t)A->m * A->n;
  for (size_t i = 0; i < t; i++)
    if (A->e[i]) return 0;
  return 1;
}
long rm_weight(const rm_t *A) {
  size_t t = (size_t)A->m * A->n;
  long c = 0;
  for (size_t i = 0; i < t; i++) c += A->e[i];
  return c;
}

rm_t *rm_mul(const rm_t *A, const rm_t *B) {
  rm_t *C = rm_new(A->m, B->n);
  int n = B->n;
  for (int i = 0; i < A->m; i++) {
    uint8_t *c = C->e + (size_t)i * n;
    for (int k = 0; k < A->n; k++) {
      if (RM(A, i, k)) {
        const uint8_t *b = B->e + (size_t)k * n;
        for (int j = 0; j < n; j++) c[j] ^= b[j];
      }
    }
  }
  return C;
}
rm_t *rm_add(const rm_t *A, const rm_t *B) {
  rm_t *C = rm_new(A->m, A->n);
  size_t t = (size_t)A->m * A->n;
  for (size_t i = 0; i < t; i++) C->e[i] = A->e[i] ^ B->e[i];
  return C;
}
rm_t *rm_transpose(const rm_t *A) {
  rm_t *T = rm_new(A->n, A->m);
  for (int i = 0; i < A->m; i++)
    for (int j = 0; j < A->n; j++) RM(T, j, i) = RM(A, i, j);
  return T;
}
rm_t *rm_identity(int n) {
  rm_t *I = rm_new(n, n);
  for (int i = 0; i < n; i++) RM(I, i, i) = 1;
  return I;
}
rm_t *rm_sub(const rm_t *A, int r0, int c0, int r1, int c1) {
  rm_t *S = rm_new(r1 - r0, c1 - c0);
  for (int i = r0; i < r1; i++)
    for (int j = c0; j < c1; j++) RM(S, i - r0, j - c0) = RM(A, i, j);
  return S;
}
rm_t *rm_concat(const rm_t *A, const rm_t *B) {
  rm_t *C = rm_new(A->m, A->n + B->n);
  for (int i = 0; i < A->m; i++) {
    for (int j = 0; j < A->n; j++) RM(C, i, j) = RM(A, i, j);
    for (int j = 0; j < B->n; j++) RM(C, i, A->n + j) = RM(B, i, j);
  }
  return C;
}
rm_t *rm_stack(const rm_t *A, const rm_t *B) {
  rm_t *C = rm_new(A->m + B->m, A->n);
  for (int i = 0; i < A->m; i++)
    for (int j = 0; j < A->n; j++) RM(C, i, j) = RM(A, i, j);
  for (int i = 0; i < B->m; i++)
    for (int j = 0; j < A->n; j++) RM(C, A->m + i, j) = RM(B, i, j);
  return C;
}
void rm_swap_rows(rm_t *A, int a, int b) {
  if (a == b) return;
  for (int j = 0; j < A->n; j++) {
    uint8_t t = RM(A, a, j);
    RM(A, a, j) = RM(A, b, j);
    RM(A, b, j) = t;
  }
}
void rm_swap_cols_rows(rm_t *A, int a, int b, int r0, int r1) {
  if (a == b) return;
  for (int i = r0; i < r1; i++) {
    uint8_t t = RM(A, i, a);
    RM(A, i, a) = RM(A, i, b);
    RM(A, i, b) = t;
  }
}
void rm_swap_cols(rm_t *A, int a, int b) { rm_swap_cols_rows(A, a, b, 0, A->m); }

rm_t *rm_rref(const rm_t *A, int *pivots, int *rank) {
  rm_t *E = rm_copy(A);
  int r = 0, n = E->n;
  for (int c = 0; c < n && r < E->m; c++) {
    int p = -1;
    for (int i = r; i < E->m; i++)
      if (RM(E, i, c)) {
        p = i;
        break;
      }
    if (p < 0) continue;
    rm_swap_rows(E, r, p);
    const uint8_t *pr = E->e + (size_t)r * n;
    for (int i = 0; i < E->m; i++) {
      if (i != r && RM(E, i, c)) {
        uint8_t *row = E->e + (size_t)i * n;
        for (int j = c; j < n; j++) row[j] ^= pr[j];
      }
    }
    if (pivots) pivots[r] = c;
    r++;
  }
  if (rank) *rank = r;
  return E;
}
int rm_rank(const rm_t *A) {
  int r;
  rm_t *E = rm_rref(A, NULL, &r);
  rm_free(E);
  return r;
}
static int lead(const rm_t *E, int i) {
  for (int j = 0; j < E->n; j++)
    if (RM(E, i, j)) return j;
  return -1;
}
int rm_is_ref(const rm_t *E) {
  int prev = -1, nz = 0, seen_zero = 0;
  for (int i = 0; i < E->m; i++) {
    int l = lead(E, i);
    if (l < 0) {
      seen_zero = 1;
      continue;
    }
    if (seen_zero) return -1;
    if (l <= prev) return -1;
    prev = l;
    nz++;
  }
  return nz;
}
int rm_is_rref(const rm_t *E) {
  int nz = rm_is_ref(E);
  if (nz < 0) return 0;
  for (int i = 0; i < nz; i++) {
    int l = lead(E, i);
    for (int k = 0; k < E->m; k++)
      if (k != i && RM(E, k, l)) return 0;
  }
  return 1;
}
rm_t *rm_unit_tri(const rm_t *T, int lower) {
  rm_t *R = rm_new(T->m, T->n);
  for (int i = 0; i < T->m; i++)
    for (int j = 0; j < T->n; j++) {
      if (i == j)
        RM(R, i, j) = 1;
      else if (lower ? (j < i) : (j > i))
        RM(R, i, j) = RM(T, i, j);
    }
  return R;
}
uint64_t rm_digest(const rm_t *A) {
  uint64_t h = 1469598103934665603ULL ^ ((uint64_t)A->m << 32) ^ (uint64_t)A->n;
  size_t t = (size_t)A->m * A->n;
  uint64_t acc = 0;
  int nb = 0;
  for (size_t i = 0; i < t; i++) {
    acc = (acc << 1) | A->e[i];
    if (++nb == 64) {
      h = (h ^ acc) * 1099511628211ULL;
      h ^= h >> 29;
      acc = 0;
      nb = 0;
    }
  }
  h = (h ^ acc ^ ((uint64_t)nb << 56)) * 1099511628211ULL;
  h ^= h >> 31;
  return h;
}
