/* C18: file I/O.  Two modes:
 *   round trip (no --arg): mzd_to_png -> own PNG decoder (zlib only) and mzd_from_png; mzd_from_str; mzd_from_jcf on generated files
 *   forged files (--arg <dir> with index.tsv from forge.py): each file is read in a forked child; verdict by expectation class */
#include "mon.h"
#include <m4ri/io.h>
#include <signal.h>
#include <stdarg.h>
#include <stdio.h>
#include <stdlib.h>
#include <string.h>
#include <sys/wait.h>
#include <unistd.h>
#include <zlib.h>

/* ---------------- independent decoder for 1-bit gray, non-interlaced PNG files (what mzd_to_png must write) */
static uint32_t be32(const unsigned char *p) { return ((uint32_t)p[0] << 24) | ((uint32_t)p[1] << 16) | ((uint32_t)p[2] << 8) | p[3]; }
static int paeth(int a, int b, int c) {
  int p = a + b - c, pa = abs(p - a), pb = abs(p - b), pc = abs(p - c);
  return (pa <= pb && pa <= pc) ? a : (pb <= pc ? b : c);
}
/* returns matrix (1 <-> black sample 0) or NULL with reason */
static rm_t *png_decode_1bit(const char *fn, char *why, size_t cap, char *comment, size_t ccap) {
  FILE *f = fopen(fn, "rb");
  if (!f) {
    snprintf(why, cap, "cannot open");
    return NULL;
  }
  fseek(f, 0, SEEK_END);
  long sz = ftell(f);
  fseek(f, 0, SEEK_SET);
  unsigned char *buf = malloc(sz + 1);
  if (fread(buf, 1, sz, f) != (size_t)sz) {
    fclose(f);
    free(buf);
    snprintf(why, cap, "short read");
    return NULL;
  }
  fclose(f);
  static const unsigned char sig[8] = {0x89, 'P', 'N', 'G', '\r', '\n', 0x1a, '\n'};
  if (sz < 8 || memcmp(buf, sig, 8)) {
    free(buf);
    snprintf(why, cap, "bad signature");
    return NULL;
  }
  long p = 8;
  uint32_t w = 0, h = 0;
  int depth = -1, ctype = -1, il = -1, seen_iend = 0;
  unsigned char *z = malloc(sz + 1);
  size_t zl = 0;
  if (comment && ccap) comment[0] = 0;
  while (p + 12 <= sz) {
    uint32_t len = be32(buf + p);
    const unsigned char *typ = buf + p + 4, *data = buf + p + 8;
    if (p + 12 + (long)len > sz) break;
    uint32_t crc = be32(data + len);
    if ((uint32_t)crc32(crc32(0, typ, 4), data, len) != crc) {
      snprintf(why, cap, "CRC mismatch in chunk %.4s", typ);
      free(buf);
      free(z);
      return NULL;
    }
    if (!memcmp(typ, "IHDR", 4) && len == 13) {
      w = be32(data);
      h = be32(data + 4);
      depth = data[8];
      ctype = data[9];
      il = data[12];
    } else if (!memcmp(typ, "IDAT", 4)) {
      memcpy(z + zl, data, len);
      zl += len;
    } else if (!memcmp(typ, "tEXt", 4) && comment && len > 8 && !memcmp(data, "Comment", 8)) {
      size_t l = len - 8 < ccap - 1 ? len - 8 : ccap - 1;
      memcpy(comment, data + 8, l);
      comment[l] = 0;
    } else if (!memcmp(typ, "IEND", 4))
      seen_iend = 1;
    p += 12 + len;
  }
  rm_t *M = NULL;
  if (depth != 1 || ctype != 0 || il != 0)
    snprintf(why, cap, "not a 1-bit non-interlaced gray image (depth %d, colour type %d, interlace %d)", depth, ctype, il);
  else if (!seen_iend || p != sz)
    snprintf(why, cap, "chunk structure broken (IEND seen %d, %ld trailing bytes)", seen_iend, sz - p);
  else {
    size_t rb = (w + 7) / 8;
    uLongf rawl = (uLongf)((rb + 1) * h);
    unsigned char *raw = malloc(rawl + 1);
    int zr = uncompress(raw, &rawl, z, zl);
    if (zr != Z_OK || rawl != (rb + 1) * h)
      snprintf(why, cap, "zlib stream error %d or wrong size %lu (expected %zu)", zr, (unsigned long)rawl, (rb + 1) * h);
    else {
      M = rm_new((int)h, (int)w);
      unsigned char *prev = calloc(rb + 1, 1), *cur = malloc(rb + 1);
      for (uint32_t i = 0; i < h && M; i++) {
        unsigned char ft = raw[i * (rb + 1)];
        const unsigned char *src = raw + i * (rb + 1) + 1;
        if (ft > 4) {
          snprintf(why, cap, "bad filter type %d", ft);
          rm_free(M);
          M = NULL;
          break;
        }
        for (size_t k = 0; k < rb; k++) {
          int a = k ? cur[k - 1] : 0, b = prev[k], c = k ? prev[k - 1] : 0, x = src[k];
          switch (ft) {
          case 1: x += a; break;
          case 2: x += b; break;
          case 3: x += (a + b) >> 1; break;
          case 4: x += paeth(a, b, c); break;
          default: break;
          }
          cur[k] = (unsigned char)x;
        }
        if (!M) break;
        for (uint32_t j = 0; j < w; j++) RM(M, i, j) = !((cur[j / 8] >> (7 - j % 8)) & 1);
        memcpy(prev, cur, rb);
      }
      free(prev);
      free(cur);
    }
    free(raw);
  }
  free(buf);
  free(z);
  return M;
}

/* ---------------- round trip cases */
static void io_fail(const char *op, const char *pcls, const char *kind, const char *fmt, ...) {
  char key[200], msg[700];
  va_list ap;
  va_start(ap, fmt);
  vsnprintf(msg, sizeof msg, fmt, ap);
  va_end(ap);
  snprintf(key, sizeof key, "%s|io|%s|%s", op, pcls, kind);
  hx_fail(key, "%s", msg);
}

static void roundtrip_case(const mon_args_t *a, long idx) {
  rng_t r;
  mon_case_rng(&r, a, "io", idx);
  int mode = (int)(idx % 4); /* 0,1 png  2 from_str  3 jcf */
  int n = (mode < 2) ? (int)(1 + (idx / 4) % 200) : gen_dim(&r, 200); /* every residue mod 64 and mod 8 */
  if (mode < 2 && rng_chance(&r, 1, 6)) n += 64 * rng_int(&r, 1, 12);
  int m = rng_chance(&r, 1, 3) ? rng_int(&r, 1, 3) : gen_dim(&r, a->maxdim);
  /* "any matrix": images wider or taller than libpng's default limit of 1 000 000 pixels per side are matrices too */
  if (mode < 2 && idx % 194 == 8) {
    n = 1000001 + rng_int(&r, 0, 130);
    m = rng_int(&r, 1, 2);
    hx_tag("png_over_1e6");
  } else if (mode < 2 && idx % 194 == 9) {
    m = 1000001 + rng_int(&r, 0, 50);
    n = rng_int(&r, 1, 3);
    hx_tag("png_over_1e6");
  }
  int pat = gen_pat(&r);
  rm_t *V = gen_mat(&r, m, n, pat);
  char fn[600], kp[96];
  hx_reset(idx);
  static const char *MN[] = {"mzd_to_png+mzd_from_png", "mzd_to_png+mzd_from_png", "mzd_from_str", "mzd_from_jcf"};
  snprintf(kp, sizeof kp, "%s|io|roundtrip", MN[mode]);
  hx_cls("%s:n%%64=%d:%s", MN[mode], n % 64, pat_name(pat));
  HX.nontrivial = !(m == 1 && n == 1);
  if (mode < 2) {
    int level = rng_int(&r, 0, 9);
    char comment[700];
    int cl = rng_chance(&r, 1, 4) ? 0 : rng_chance(&r, 1, 3) ? rng_int(&r, 300, 600) : rng_int(&r, 1, 60);
    for (int i = 0; i < cl; i++) comment[i] = (char)rng_int(&r, 32, 126);
    comment[cl] = 0;
    int windowed = rng_chance(&r, 1, 4);
    opnd_t *o = opnd_make(&r, V, windowed ? rng_int(&r, 1, 2) : PL_OWN);
    opnd_snapshot(o);
    snprintf(fn, sizeof fn, "%s/rt_%d_%ld.png", a->dir, (int)getpid(), idx);
    hx_begin(idx, kp, "m=%d n=%d pat=%s level=%d commentlen=%d %s", m, n, pat_name(pat), level, cl, o->cls);
    hx_tag("png_level=%d", level);
    int rc = mzd_to_png(o->M, fn, level, comment, 0);
    if (rc != 0) io_fail("mzd_to_png", "roundtrip", "write-failed", "mzd_to_png returned %d", rc);
    if (opnd_total_diff(o)) io_fail("mzd_to_png", "roundtrip", "operand-modified", "source matrix changed by mzd_to_png");
    /* own decoder: catches errors that are symmetric in writer and reader */
    char why[200] = "", cm[800];
    rm_t *D = png_decode_1bit(fn, why, sizeof why, cm, sizeof cm);
    if (!D)
      io_fail("mzd_to_png", "roundtrip", "bad-file", "written file is not a well-formed 1-bit gray PNG: %s", why);
    else {
      if (!rm_eq(D, V)) io_fail("mzd_to_png", "roundtrip", "wrong-result", "independent decoder reads a different matrix (%ld entries differ)", D->m == V->m && D->n == V->n ? rm_count_diff(D, V) : -1L);
      if (strcmp(cm, comment)) io_fail("mzd_to_png", "roundtrip", "wrong-comment", "comment chunk differs from the comment passed in");
      rm_free(D);
    }
    /* fresh blocks handed to the library are not zero (as after real use of the heap): a reader that relies on a zero scanline
     * buffer, or leaves bits of the result unwritten, shows up in the entries or in the padding */
    AW_poison = 2 + (int)(idx % 3); /* 0xFF, 0xA5, PRNG */
    mzd_t *B = mzd_from_png(fn, 0);
    AW_poison = 0;
    if (!B)
      io_fail("mzd_from_png", "roundtrip", "wrong-result", "mzd_from_png returned NULL for a file written by mzd_to_png");
    else {
      rm_t *G = rm_from_mzd(B);
      if (!rm_eq(G, V)) io_fail("mzd_from_png", "roundtrip", "wrong-result", "round trip changed the matrix (%dx%d read, %ld entries differ)", G->m, G->n, G->m == V->m && G->n == V->n ? rm_count_diff(G, V) : -1L);
      if (mzd_padding_bits(B)) io_fail("mzd_from_png", "roundtrip", "padding-nonzero", "matrix read from PNG has %ld padding bits set", mzd_padding_bits(B));
      rm_free(G);
      mzd_free(B);
    }
    unlink(fn);
    opnd_free(o);
  } else if (mode == 2) {
    char *s = malloc((size_t)m * n + 1);
    for (int i = 0; i < m; i++)
      for (int j = 0; j < n; j++) s[(size_t)i * n + j] = RM(V, i, j) ? '1' : '0';
    s[(size_t)m * n] = 0;
    hx_begin(idx, kp, "m=%d n=%d pat=%s", m, n, pat_name(pat));
    mzd_t *B = mzd_from_str(m, n, s);
    rm_t *G = B ? rm_from_mzd(B) : NULL;
    if (!G || !rm_eq(G, V)) io_fail("mzd_from_str", "roundtrip", "wrong-result", "matrix differs from the string");
    if (B && mzd_padding_bits(B)) io_fail("mzd_from_str", "roundtrip", "padding-nonzero", "padding bits set");
    rm_free(G);
    if (B) mzd_free(B);
    free(s);
  } else {
    /* JCF cannot express an empty row followed by a non-empty one: make every row non-empty */
    for (int i = 0; i < m; i++) {
      int any = 0;
      for (int j = 0; j < n; j++) any |= RM(V, i, j);
      if (!any) RM(V, i, rng_int(&r, 0, n - 1)) = 1;
    }
    snprintf(fn, sizeof fn, "%s/rt_%d_%ld.jcf", a->dir, (int)getpid(), idx);
    FILE *f = fopen(fn, "w");
    fprintf(f, "%d %d 2\n%ld\n\n", m, n, rm_weight(V));
    for (int i = 0; i < m; i++) {
      int first = 1;
      for (int j = 0; j < n; j++)
        if (RM(V, i, j)) {
          fprintf(f, "%s%d\n", first ? "-" : "", j + 1);
          first = 0;
        }
    }
    fclose(f);
    hx_begin(idx, kp, "m=%d n=%d pat=%s", m, n, pat_name(pat));
    mzd_t *B = mzd_from_jcf(fn, 0);
    rm_t *G = B ? rm_from_mzd(B) : NULL;
    if (!G || !rm_eq(G, V)) io_fail("mzd_from_jcf", "roundtrip", "wrong-result", "matrix differs from the file (%s)", G ? "entries differ" : "NULL");
    rm_free(G);
    if (B) mzd_free(B);
    unlink(fn);
  }
  rm_free(V);
  hx_end();
}

/* ---------------- forged files */
typedef struct {
  char file[64], kind[64], expect[16], side[80];
} fent_t;
static fent_t *IDX;
static long NIDX;
static void load_index(const char *dir) {
  char p[600];
  snprintf(p, sizeof p, "%s/index.tsv", dir);
  FILE *f = fopen(p, "r");
  if (!f) hx_die("cannot open %s", p);
  long cap = 1024;
  IDX = malloc(cap * sizeof(fent_t));
  char line[512];
  while (fgets(line, sizeof line, f)) {
    if (NIDX == cap) {
      cap *= 2;
      IDX = realloc(IDX, cap * sizeof(fent_t));
    }
    fent_t *e = &IDX[NIDX];
    if (sscanf(line, "%63[^\t]\t%63[^\t]\t%15[^\t]\t%79[^\t\n]", e->file, e->kind, e->expect, e->side) == 4) NIDX++;
  }
  fclose(f);
}
static rm_t *load_side(const char *dir, const char *side) {
  char p[700];
  snprintf(p, sizeof p, "%s/%s", dir, side);
  FILE *f = fopen(p, "r");
  if (!f) return NULL;
  int m, n;
  if (fscanf(f, "%d %d\n", &m, &n) != 2) {
    fclose(f);
    return NULL;
  }
  rm_t *M = rm_new(m, n);
  char *line = malloc(n + 8);
  for (int i = 0; i < m; i++) {
    if (!fgets(line, n + 4, f)) break;
    for (int j = 0; j < n; j++) RM(M, i, j) = line[j] == '1';
  }
  free(line);
  fclose(f);
  return M;
}

static void file_case(const mon_args_t *a, long idx) {
  const fent_t *e = &IDX[idx % NIDX];
  char fn[700], kp[160];
  snprintf(fn, sizeof fn, "%s/%s", a->arg, e->file);
  int is_png = strstr(e->file, ".png") != NULL;
  const char *op = is_png ? "mzd_from_png" : "mzd_from_jcf";
  hx_reset(idx);
  snprintf(kp, sizeof kp, "%s|file|%s", op, e->kind);
  hx_cls("%s:%s:%s", op, e->kind, e->expect);
  HX.nontrivial = 1;
  hx_begin(idx, kp, "file=%s kind=%s expect=%s", e->file, e->kind, e->expect);
  int pfd[2];
  if (pipe(pfd)) hx_die("pipe");
  fflush(stdout);
  pid_t pid = fork();
  if (pid < 0) hx_die("fork");
  if (pid == 0) {
    close(pfd[0]);
    dup2(pfd[1], 2);
    close(pfd[1]);
    alarm(120);
    extern long mon_live_effective(void);
    extern long mon_headers_in_use(void);
    m4ri_mmc_cleanup();
    long live0 = mon_live_effective(), hdr0 = mon_headers_in_use();
    mzd_t *B = is_png ? mzd_from_png(fn, 0) : mzd_from_jcf(fn, 0);
    const char *m = "HX-NULL\n";
    if (B) {
      m = "HX-MATRIX\n";
      if (strcmp(e->side, "-")) {
        rm_t *S = load_side(a->arg, e->side);
        rm_t *G = rm_from_mzd(B);
        m = (S && rm_eq(S, G) && !mzd_padding_bits(B)) ? "HX-MATCH\n" : "HX-MISMATCH\n";
      }
    }
    if (write(2, m, strlen(m)) < 0) {}
    /* whatever the reader did with the file, it must have given back everything it allocated except the returned matrix */
    if (B) mzd_free(B);
    m4ri_mmc_cleanup();
    long live1 = mon_live_effective(), hdr1 = mon_headers_in_use();
    if (live1 != live0 || hdr1 != hdr0) {
      char lb[120];
      snprintf(lb, sizeof lb, "HX-LEAK blocks %ld -> %ld, headers %ld -> %ld\n", live0, live1, hdr0, hdr1);
      if (write(2, lb, strlen(lb)) < 0) {}
    }
    _exit(0);
  }
  close(pfd[1]);
  char out[8192];
  size_t len = 0;
  ssize_t k;
  while ((k = read(pfd[0], out + len, sizeof out - 1 - len)) > 0) {
    len += (size_t)k;
    if (len >= sizeof out - 1) break;
  }
  out[len] = 0;
  char junk[4096];
  while (read(pfd[0], junk, sizeof junk) > 0) {}
  close(pfd[0]);
  int st = 0;
  waitpid(pid, &st, 0);
  int san = strstr(out, "ERROR: AddressSanitizer") || strstr(out, "runtime error:");
  int exited0 = WIFEXITED(st) && WEXITSTATUS(st) == 0;
  int aborted = WIFSIGNALED(st) && WTERMSIG(st) == SIGABRT;
  const char *kind = NULL;
  if (san)
    kind = "sanitizer-report";
  else if (WIFSIGNALED(st) && (WTERMSIG(st) == SIGSEGV || WTERMSIG(st) == SIGBUS))
    kind = "crash:SIGSEGV";
  else if (WIFSIGNALED(st) && WTERMSIG(st) == SIGALRM)
    kind = "hang";
  else if (!exited0 && !aborted)
    kind = "wrong-termination";
  else if (!strcmp(e->expect, "matrix")) {
    if (!strstr(out, "HX-MATCH")) kind = aborted ? "valid-file-rejected" : strstr(out, "HX-NULL") ? "valid-file-rejected" : "wrong-matrix";
  } else if (!strcmp(e->expect, "reject")) {
    if (exited0 && !strstr(out, "HX-NULL")) kind = "accepted-unsupported-or-malformed";
  } else { /* any */
    if (strstr(out, "HX-MISMATCH")) kind = "wrong-matrix";
  }
  if (!kind && strstr(out, "HX-LEAK")) kind = "leak";
  hx_tag(aborted ? "fate_abort" : strstr(out, "HX-NULL") ? "fate_null" : "fate_matrix");
  if (kind) {
    char key[260];
    snprintf(key, sizeof key, "%s|%s", kp, kind);
    hx_fail(key, "file %s (%s, expectation %s): %s; status 0x%x :: %.700s", e->file, e->kind, e->expect, kind, st, out);
  }
  hx_end();
}

int mon_io(const mon_args_t *a) {
  if (a->arg) load_index(a->arg);
  for (long idx = a->from; idx < a->to; idx++) {
    if (a->arg) {
      if (idx >= NIDX) break;
      file_case(a, idx);
    } else
      roundtrip_case(a, idx);
  }
  return 0;
}
