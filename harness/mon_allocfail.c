/* C20: for each scenario, for every i, the i-th allocation request of the scenario fails (all earlier ones
 * succeed) in a fresh child process: the child must die by SIGABRT through the library's error handler
 * with a diagnostic on stderr - never SIGSEGV, a sanitizer report, a hang or a normal return. */
#include "mon.h"
#include <m4ri/io.h>
#include <signal.h>
#include <stdio.h>
#include <stdlib.h>
#include <string.h>
#include <sys/wait.h>
#include <unistd.h>

enum { X_INIT = 1000, X_WINDOW, X_CHURN, X_MZP, X_PNG_WRITE, X_PNG_READ, X_JCF_READ, X_FROM_STR, X_DJB_BIG, X_INIT_BIG, X_HDR_SPILL, X_NEXTRA };
static const char *XN[] = {"mzd_init", "mzd_init_window", "init_free_churn", "mzp_init_copy", "mzd_to_png", "mzd_from_png", "mzd_from_jcf", "mzd_from_str", "djb_compile_big", "mzd_init_above_threshold", "headers_beyond_pool"};

extern void hx_djb_free(void *z);

static void arm(long fail_at) {
  AW_count = 0;
  AW_fail_at = fail_at;
  AW_armed = 1;
}
static void disarm(void) { AW_armed = 0; }

/* runs scenario in the current (child) process */
static void scenario(const mon_args_t *a, int sc, const op_t *op, long fail_at, rng_t *r, const char *tmpdir) {
  char fn[512];
  if (op) {
    opcase_t c;
    opcase_init(&c, op);
    op->gen(&c, r, a->maxdim);
    opcase_place(&c, r, 0);
    for (int i = 0; i < MAXSLOT; i++)
      if (c.o[i] && c.same_as[i] < 0) opnd_snapshot(c.o[i]);
    arm(fail_at);
    op->run(&c);
    disarm();
    return;
  }
  switch (sc) {
  case X_INIT: {
    arm(fail_at);
    mzd_t *A = mzd_init(rng_int(r, 1, 300), rng_int(r, 1, 300));
    mzd_t *B = mzd_init(rng_int(r, 1, 30), rng_int(r, 1, 3000));
    disarm();
    (void)A;
    (void)B;
    break;
  }
  case X_WINDOW: {
    mzd_t *A = mzd_init(100, 300);
    arm(fail_at);
    /* enough windows to need a second header block */
    for (int i = 0; i < 140; i++) mzd_init_window(A, i % 50, 64 * (i % 3), 60 + i % 40, 200 + i % 100);
    disarm();
    break;
  }
  case X_CHURN: {
    arm(fail_at);
    mzd_t *L[40];
    for (int t = 0; t < 3; t++) {
      for (int i = 0; i < 40; i++) L[i] = mzd_init(1 + (i * 7 + t) % 23, 10 + (i * 37) % 500);
      for (int i = 0; i < 40; i++) mzd_free(L[i]);
    }
    disarm();
    break;
  }
  case X_MZP: {
    arm(fail_at);
    mzp_t *P = mzp_init(rng_int(r, 1, 500));
    mzp_t *Q = mzp_copy(NULL, P);
    mzp_t *W = mzp_init_window(P, 0, P->length / 2);
    disarm();
    (void)Q;
    (void)W;
    break;
  }
  case X_PNG_WRITE:
  case X_PNG_READ: {
    rm_t *v = gen_mat(r, rng_int(r, 1, 80), rng_int(r, 1, 200), PAT_DENSE);
    opnd_t *o = opnd_make(r, v, PL_OWN);
    snprintf(fn, sizeof fn, "%s/af_%d.png", tmpdir, (int)getpid());
    if (sc == X_PNG_READ) mzd_to_png(o->M, fn, 5, "x", 0);
    arm(fail_at);
    if (sc == X_PNG_WRITE)
      mzd_to_png(o->M, fn, 5, "x", 0);
    else {
      mzd_t *B = mzd_from_png(fn, 0);
      (void)B;
    }
    disarm();
    unlink(fn);
    break;
  }
  case X_JCF_READ: {
    snprintf(fn, sizeof fn, "%s/af_%d.jcf", tmpdir, (int)getpid());
    FILE *f = fopen(fn, "w");
    int m = rng_int(r, 1, 30), n = rng_int(r, 2, 60);
    fprintf(f, "%d %d 2\n%d\n\n", m, n, 4 * m);
    for (int i = 0; i < m; i++) {
      fprintf(f, "-%d\n", rng_int(r, 1, n));
      for (int j = 0; j < 3; j++) fprintf(f, "%d\n", rng_int(r, 1, n));
    }
    fclose(f);
    arm(fail_at);
    mzd_t *A = mzd_from_jcf(fn, 0);
    disarm();
    (void)A;
    unlink(fn);
    break;
  }
  case X_FROM_STR: {
    arm(fail_at);
    mzd_t *A = mzd_from_str(4, 4, "1000010000100001");
    disarm();
    (void)A;
    break;
  }
  case X_INIT_BIG: {
    /* blocks larger than the caching threshold take their own path through the allocation front end (never cached): a matrix
     * just above the threshold, one far above it, used and freed, then the same sizes again */
    size_t thr = (size_t)__M4RI_CPU_L3_CACHE;
    int rows1 = (int)(thr / 128) + 1 + rng_int(r, 0, 8), rows2 = (int)(thr / 64) + rng_int(r, 1, 50);
    arm(fail_at);
    for (int t = 0; t < 2; t++) {
      mzd_t *A = mzd_init(rows1, 1024);
      mzd_write_bit(A, rows1 - 1, 1023, 1);
      mzd_t *B = mzd_init(rows2, 1000);
      mzd_write_bit(B, rows2 - 1, 999, 1);
      mzd_t *C = mzd_copy(NULL, A);
      mzd_free(A);
      mzd_free(B);
      mzd_free(C);
    }
    disarm();
    break;
  }
  case X_HDR_SPILL: {
    /* more live headers than the pool holds: further headers come from the system allocator one by one */
    extern int mzd_verif_header_cache_capacity(void);
    int cap = mzd_verif_header_cache_capacity();
    if (cap <= 0) cap = 1024; /* header cache compiled out: every header is an allocation anyway */
    mzd_t *A = mzd_init(8, 130);
    for (int i = 0; i < cap + 3; i++) mzd_init_window(A, i % 7, 64 * (i % 2), 8, 100 + i % 30);
    arm(fail_at);
    for (int i = 0; i < 3; i++) mzd_init_window(A, i, 0, 8, 70 + i);
    mzd_t *B = mzd_init(3, 70);
    mzd_write_bit(B, 2, 69, 1);
    disarm();
    break;
  }
  case X_DJB_BIG: {
    /* long enough program that djb_push_back has to grow its arrays */
    rm_t *v = gen_mat(r, 60, 60, PAT_DENSE);
    opnd_t *o = opnd_make(r, v, PL_OWN);
    arm(fail_at);
    djb_t *z = djb_compile(o->M);
    disarm();
    (void)z;
    break;
  }
  }
}

/* fork a child running the scenario with the i-th request failing; returns 0 ok, fills kind/site on violation */
static int run_child(const mon_args_t *a, int sc, const op_t *op, long fail_at, long idx, char *out, size_t cap, int *status, long *count) {
  int pfd[2];
  if (pipe(pfd)) hx_die("pipe");
  fflush(stdout);
  pid_t pid = fork();
  if (pid < 0) hx_die("fork");
  if (pid == 0) {
    close(pfd[0]);
    dup2(pfd[1], 2);
    close(pfd[1]);
    alarm(120);
    rng_t r;
    mon_case_rng(&r, a, "allocfail", idx); /* same operands for every i */
    scenario(a, sc, op, fail_at, &r, a->dir);
    char b[96];
    snprintf(b, sizeof b, "HX-RETURNED count=%ld failed=%ld\n", (long)AW_count, (long)AW_failed_seen);
    if (write(2, b, strlen(b)) < 0) {}
    _exit(0);
  }
  close(pfd[1]);
  size_t len = 0;
  ssize_t k;
  while ((k = read(pfd[0], out + len, cap - 1 - len)) > 0) {
    len += (size_t)k;
    if (len >= cap - 1) break;
  }
  out[len] = 0;
  /* drain */
  char junk[4096];
  while (read(pfd[0], junk, sizeof junk) > 0) {}
  close(pfd[0]);
  waitpid(pid, status, 0);
  const char *p = strstr(out, "HX-RETURNED count=");
  if (p && count) *count = atol(p + 18);
  return 0;
}

static void site_of(const char *out, char *site, size_t cap) {
  const char *p = strstr(out, "AW-FAIL-SITE");
  site[0] = 0;
  if (!p) {
    snprintf(site, cap, "?");
    return;
  }
  const char *c = strchr(p, ':');
  if (!c) return;
  c++;
  /* first two function names that are not the allocator wrappers */
  int n = 0;
  size_t l = 0;
  while (*c && *c != '\n' && n < 2) {
    while (*c == ' ') c++;
    const char *e = c;
    while (*e && *e != ' ' && *e != '\n') e++;
    if (e > c) {
      int skip = !strncmp(c, "m4ri_mm", 7) || !strncmp(c, "__wrap", 6) || !strncmp(c, "_mm_", 4) || !strncmp(c, "?", 1) || !strncmp(c, "m4ri_mmc_", 9);
      if (!skip) {
        l += snprintf(site + l, cap > l ? cap - l : 0, "%s%.*s", n ? "<" : "", (int)(e - c), c);
        n++;
      }
    }
    c = e;
  }
  if (!site[0]) snprintf(site, cap, "?");
}

int mon_allocfail(const mon_args_t *a) {
  const op_t *sel[160];
  int nops = mon_select_ops(a, sel, 160);
  int nsc = nops + (X_NEXTRA - X_INIT);
  for (long idx = a->from; idx < a->to; idx++) {
    int s = (int)(idx % nsc);
    const op_t *op = s < nops ? sel[s] : NULL;
    int sc = op ? 0 : X_INIT + (s - nops);
    const char *name = op ? op->name : XN[sc - X_INIT];
    hx_reset(idx);
    char kp[128];
    snprintf(kp, sizeof kp, "%s|allocfail|-", name);
    hx_begin(idx, kp, "scenario=%s variant=%ld", name, idx / nsc);
    char out[8192];
    int st = 0;
    long N = -1;
    /* dry run: count the allocation requests of the scenario */
    run_child(a, sc, op, 0, idx, out, sizeof out, &st, &N);
    if (!(WIFEXITED(st) && WEXITSTATUS(st) == 0) || N < 0) {
      char key[200];
      snprintf(key, sizeof key, "%s|dry-run-died", kp);
      hx_fail(key, "scenario died without any injected failure: status 0x%x :: %.400s", st, out);
      hx_end();
      continue;
    }
    long nviol = 0, nabort = 0, nnotreached = 0;
    for (long i = 1; i <= N; i++) {
      long cnt = -1;
      run_child(a, sc, op, i, idx, out, sizeof out, &st, &cnt);
      char site[160], key[400];
      site_of(out, site, sizeof site);
      int san = strstr(out, "ERROR: AddressSanitizer") || strstr(out, "runtime error:");
      /* a diagnostic = any line on stderr that is not one of the harness' own markers (the wording is the library's business) */
      int diag = 0;
      {
        char tmp[8192];
        snprintf(tmp, sizeof tmp, "%s", out);
        char *save = NULL;
        for (char *ln = strtok_r(tmp, "\n", &save); ln; ln = strtok_r(NULL, "\n", &save)) {
          while (*ln == ' ') ln++;
          if (!*ln || !strncmp(ln, "AW-", 3) || !strncmp(ln, "HX-", 3) || !strncmp(ln, "==", 2)) continue;
          diag = 1;
        }
      }
      const char *kind = NULL;
      if (strstr(out, "HX-RETURNED")) {
        if (strstr(out, "failed=0"))
          nnotreached++;
        else
          kind = "continued-after-failure";
      } else if (san)
        kind = strstr(out, "SEGV") ? "null-deref(asan:SEGV)" : "sanitizer-report";
      else if (WIFSIGNALED(st) && WTERMSIG(st) == SIGSEGV)
        kind = "crash:SIGSEGV";
      else if (WIFSIGNALED(st) && WTERMSIG(st) == SIGALRM)
        kind = "hang";
      else if (!(WIFSIGNALED(st) && WTERMSIG(st) == SIGABRT))
        kind = "wrong-termination";
      else if (!diag)
        kind = "abort-without-library-diagnostic";
      else
        nabort++;
      if (kind) {
        nviol++;
        snprintf(key, sizeof key, "%s|allocfail|%s|%s", name, site, kind);
        hx_fail(key, "allocation request %ld of %ld failed (site %s): %s; status 0x%x :: %.500s", i, N, site, kind, st, out);
      }
    }
    hx_cls("%s:%ld", name, N > 40 ? 40 : N);
    hx_tag("evals=%ld", N + 1);
    hx_tag("aborted_cleanly=%ld", nabort > 50 ? 50 : nabort);
    if (nnotreached) hx_tag("not_reached");
    HX.nontrivial = N > 0;
    hx_end();
  }
  return 0;
}
