/* C11 monitor C: ill-dimensioned calls of the checked public wrappers must end in m4ri_die before
 * any operand is touched.  Each case forks; the child installs a hook that runs when the library
 * calls abort(): it compares every operand allocation with its snapshot and prints a marker. */
#include "mon.h"
#include <signal.h>
#include <stdio.h>
#include <stdlib.h>
#include <string.h>
#include <sys/wait.h>
#include <unistd.h>

static opnd_t *OPS_[6];
static int NOPS_;
static mzp_t *PP[2];
static int PPsnap[2][512];

static void abort_hook(void) {
  long bad = 0;
  for (int i = 0; i < NOPS_; i++) bad += opnd_total_diff(OPS_[i]) != 0;
  for (int k = 0; k < 2; k++)
    if (PP[k])
      for (int i = 0; i < PP[k]->length && i < 512; i++) bad += PP[k]->values[i] != PPsnap[k][i];
  const char *m = bad ? "HX-OPERANDS-MODIFIED\n" : "HX-OPERANDS-UNTOUCHED\n";
  if (write(2, m, strlen(m)) < 0) {}
}

static mzd_t *mk(rng_t *r, int m, int n) {
  rm_t *v = gen_mat(r, m, n, PAT_DENSE);
  opnd_t *o = opnd_make(r, v, rng_chance(r, 1, 4) ? rng_int(r, 1, 2) : PL_OWN);
  rm_free(v);
  OPS_[NOPS_++] = o;
  return o->M;
}
static mzp_t *mkp(int k, int len) {
  PP[k] = mzp_init(len);
  for (int i = 0; i < len && i < 512; i++) PPsnap[k][i] = PP[k]->values[i];
  return PP[k];
}

typedef struct {
  const char *name;  /* wrapper */
  const char *kind;  /* mismatch */
  int id;
} scen_t;

enum {
  X_MUL_INNER, X_MUL_C, X_MUL_CUTOFF, X_ADDMUL_INNER, X_ADDMUL_C, X_ADDMUL_CUTOFF, X_M4RM_INNER, X_M4RM_C, X_ADDM4RM_INNER, X_ADDM4RM_C,
  X_NAIVE_C, X_ADDNAIVE_C, X_MP_INNER, X_MP_C, X_ADDMP_INNER, X_ADDMP_C, X_ADD_AB, X_ADD_C, X_COPY_SMALL, X_TRANSPOSE_DST, X_CONCAT_ROWS,
  X_CONCAT_C, X_STACK_COLS, X_STACK_C, X_SUBMATRIX_SMALL, X_TRSM_UL_DIM, X_TRSM_UL_SQ, X_TRSM_LL_DIM, X_TRSM_LL_SQ, X_TRSM_UR_DIM, X_TRSM_UR_SQ,
  X_TRSM_LR_DIM, X_TRSM_LR_SQ, X_PLE_P, X_PLE_Q, X_PLUQ_P, X_PLUQ_Q, X_SOLVE_WIDE, X_SOLVE_ROWS, X_PSOLVE_WIDE, X_PSOLVE_P, X_PSOLVE_Q
};
static const scen_t SC[] = {
    {"mzd_mul", "inner", X_MUL_INNER}, {"mzd_mul", "C", X_MUL_C}, {"mzd_mul", "cutoff<0", X_MUL_CUTOFF},
    {"mzd_addmul", "inner", X_ADDMUL_INNER}, {"mzd_addmul", "C", X_ADDMUL_C}, {"mzd_addmul", "cutoff<0", X_ADDMUL_CUTOFF},
    {"mzd_mul_m4rm", "inner", X_M4RM_INNER}, {"mzd_mul_m4rm", "C", X_M4RM_C}, {"mzd_addmul_m4rm", "inner", X_ADDM4RM_INNER}, {"mzd_addmul_m4rm", "C", X_ADDM4RM_C},
    {"mzd_mul_naive", "C", X_NAIVE_C}, {"mzd_addmul_naive", "C", X_ADDNAIVE_C},
#if __M4RI_HAVE_OPENMP
    {"mzd_mul_mp", "inner", X_MP_INNER}, {"mzd_mul_mp", "C", X_MP_C}, {"mzd_addmul_mp", "inner", X_ADDMP_INNER}, {"mzd_addmul_mp", "C", X_ADDMP_C},
#endif
    {"mzd_add", "A/B", X_ADD_AB}, {"mzd_add", "C", X_ADD_C}, {"mzd_copy", "dst-small", X_COPY_SMALL}, {"mzd_transpose", "DST", X_TRANSPOSE_DST},
    {"mzd_concat", "rows", X_CONCAT_ROWS}, {"mzd_concat", "C", X_CONCAT_C}, {"mzd_stack", "cols", X_STACK_COLS}, {"mzd_stack", "C", X_STACK_C},
    {"mzd_submatrix", "S-small", X_SUBMATRIX_SMALL},
    {"mzd_trsm_upper_left", "dim", X_TRSM_UL_DIM}, {"mzd_trsm_upper_left", "square", X_TRSM_UL_SQ}, {"mzd_trsm_lower_left", "dim", X_TRSM_LL_DIM},
    {"mzd_trsm_lower_left", "square", X_TRSM_LL_SQ}, {"mzd_trsm_upper_right", "dim", X_TRSM_UR_DIM}, {"mzd_trsm_upper_right", "square", X_TRSM_UR_SQ},
    {"mzd_trsm_lower_right", "dim", X_TRSM_LR_DIM}, {"mzd_trsm_lower_right", "square", X_TRSM_LR_SQ},
    {"mzd_ple", "P", X_PLE_P}, {"mzd_ple", "Q", X_PLE_Q}, {"mzd_pluq", "P", X_PLUQ_P}, {"mzd_pluq", "Q", X_PLUQ_Q},
    {"mzd_solve_left", "A-wider-than-B", X_SOLVE_WIDE}, {"mzd_solve_left", "B-rows", X_SOLVE_ROWS},
    {"mzd_pluq_solve_left", "A-wider-than-B", X_PSOLVE_WIDE}, {"mzd_pluq_solve_left", "P", X_PSOLVE_P}, {"mzd_pluq_solve_left", "Q", X_PSOLVE_Q},
};
#define NSC ((int)(sizeof SC / sizeof SC[0]))

static int off(rng_t *r) { /* non-zero offset */
  int d = rng_int(r, 1, 70);
  return rng_chance(r, 1, 2) ? d : -d;
}
static int pos(int x) { return x < 1 ? 1 : x; }

static void child(const scen_t *s, rng_t *r, int maxdim) {
  int m = gen_dim(r, maxdim), l = gen_dim(r, maxdim), n = gen_dim(r, maxdim);
  int d = off(r), d2 = off(r);
  int l2 = pos(l + d) == l ? l + 1 : pos(l + d);
  int m2 = pos(m + d2) == m ? m + 1 : pos(m + d2);
  int n2 = pos(n + d) == n ? n + 1 : pos(n + d);
  mzd_t *A, *B, *Cc;
  NOPS_ = 0;
  PP[0] = PP[1] = NULL;
#define SNAP()                                                                                                                                       \
  do {                                                                                                                                               \
    for (int i_ = 0; i_ < NOPS_; i_++) opnd_snapshot(OPS_[i_]);                                                                                      \
    AW_abort_hook = abort_hook;                                                                                                                      \
  } while (0)
  switch (s->id) {
  case X_MUL_INNER: A = mk(r, m, l); B = mk(r, l2, n); Cc = rng_chance(r, 1, 2) ? mk(r, m, n) : NULL; SNAP(); mzd_mul(Cc, A, B, 0); break;
  case X_MUL_C: A = mk(r, m, l); B = mk(r, l, n); Cc = rng_chance(r, 1, 2) ? mk(r, m2, n) : mk(r, m, n2); SNAP(); mzd_mul(Cc, A, B, 0); break;
  case X_MUL_CUTOFF: A = mk(r, m, l); B = mk(r, l, n); Cc = mk(r, m, n); SNAP(); mzd_mul(Cc, A, B, -rng_int(r, 1, 100)); break;
  case X_ADDMUL_INNER: A = mk(r, m, l); B = mk(r, l2, n); Cc = mk(r, m, n); SNAP(); mzd_addmul(Cc, A, B, 0); break;
  case X_ADDMUL_C: A = mk(r, m, l); B = mk(r, l, n); Cc = rng_chance(r, 1, 2) ? mk(r, m2, n) : mk(r, m, n2); SNAP(); mzd_addmul(Cc, A, B, 0); break;
  case X_ADDMUL_CUTOFF: A = mk(r, m, l); B = mk(r, l, n); Cc = mk(r, m, n); SNAP(); mzd_addmul(Cc, A, B, -1); break;
  case X_M4RM_INNER: A = mk(r, m, l); B = mk(r, l2, n); Cc = rng_chance(r, 1, 2) ? mk(r, m, n) : NULL; SNAP(); mzd_mul_m4rm(Cc, A, B, 0); break;
  case X_M4RM_C: A = mk(r, m, l); B = mk(r, l, n); Cc = rng_chance(r, 1, 2) ? mk(r, m2, n) : mk(r, m, n2); SNAP(); mzd_mul_m4rm(Cc, A, B, 0); break;
  case X_ADDM4RM_INNER: A = mk(r, m, l); B = mk(r, l2, n); Cc = mk(r, m, n); SNAP(); mzd_addmul_m4rm(Cc, A, B, 0); break;
  case X_ADDM4RM_C: A = mk(r, m, l); B = mk(r, l, n); Cc = rng_chance(r, 1, 2) ? mk(r, m2, n) : mk(r, m, n2); SNAP(); mzd_addmul_m4rm(Cc, A, B, 0); break;
  case X_NAIVE_C: A = mk(r, m, l); B = mk(r, l, n); Cc = rng_chance(r, 1, 2) ? mk(r, m2, n) : mk(r, m, n2); SNAP(); mzd_mul_naive(Cc, A, B); break;
  case X_ADDNAIVE_C: A = mk(r, m, l); B = mk(r, l, n); Cc = rng_chance(r, 1, 2) ? mk(r, m2, n) : mk(r, m, n2); SNAP(); mzd_addmul_naive(Cc, A, B); break;
#if __M4RI_HAVE_OPENMP
  case X_MP_INNER: A = mk(r, m, l); B = mk(r, l2, n); Cc = rng_chance(r, 1, 2) ? mk(r, m, n) : NULL; SNAP(); mzd_mul_mp(Cc, A, B, 0); break;
  case X_MP_C: A = mk(r, m, l); B = mk(r, l, n); Cc = mk(r, m2, n); SNAP(); mzd_mul_mp(Cc, A, B, 0); break;
  case X_ADDMP_INNER: A = mk(r, m, l); B = mk(r, l2, n); Cc = mk(r, m, n); SNAP(); mzd_addmul_mp(Cc, A, B, 0); break;
  case X_ADDMP_C: A = mk(r, m, l); B = mk(r, l, n); Cc = mk(r, m, n2); SNAP(); mzd_addmul_mp(Cc, A, B, 0); break;
#endif
  case X_ADD_AB: A = mk(r, m, n); B = rng_chance(r, 1, 2) ? mk(r, m2, n) : mk(r, m, n2); Cc = rng_chance(r, 1, 2) ? mk(r, m, n) : NULL; SNAP(); mzd_add(Cc, A, B); break;
  case X_ADD_C: A = mk(r, m, n); B = mk(r, m, n); Cc = rng_chance(r, 1, 2) ? mk(r, m2, n) : mk(r, m, n2); SNAP(); mzd_add(Cc, A, B); break;
  case X_COPY_SMALL: A = mk(r, m + 1, n + 1); Cc = rng_chance(r, 1, 2) ? mk(r, rng_int(r, 1, m), n + 1) : mk(r, m + 1, rng_int(r, 1, n)); SNAP(); mzd_copy(Cc, A); break;
  case X_TRANSPOSE_DST: A = mk(r, m, n); Cc = rng_chance(r, 1, 2) ? mk(r, n2, m) : mk(r, n, m2); SNAP(); mzd_transpose(Cc, A); break;
  case X_CONCAT_ROWS: A = mk(r, m, n); B = mk(r, m2, l); Cc = rng_chance(r, 1, 2) ? mk(r, m, n + l) : NULL; SNAP(); mzd_concat(Cc, A, B); break;
  case X_CONCAT_C: A = mk(r, m, n); B = mk(r, m, l); Cc = rng_chance(r, 1, 2) ? mk(r, m2, n + l) : mk(r, m, pos(n + l + d)); SNAP(); mzd_concat(Cc, A, B); break;
  case X_STACK_COLS: A = mk(r, m, n); B = mk(r, l, n2); Cc = rng_chance(r, 1, 2) ? mk(r, m + l, n) : NULL; SNAP(); mzd_stack(Cc, A, B); break;
  case X_STACK_C: A = mk(r, m, n); B = mk(r, l, n); Cc = rng_chance(r, 1, 2) ? mk(r, pos(m + l + d), n) : mk(r, m + l, n2); SNAP(); mzd_stack(Cc, A, B); break;
  case X_SUBMATRIX_SMALL: {
    int x = rng_int(r, 0, 69);
    A = mk(r, m + 3, n + 70);
    Cc = rng_chance(r, 1, 2) ? mk(r, m, n + 1) : mk(r, m + 1, n);
    SNAP();
    mzd_submatrix(Cc, A, 1, x, m + 2, x + n + 1);
    break;
  }
  case X_TRSM_UL_DIM: A = mk(r, n, n); B = mk(r, n2, m); SNAP(); mzd_trsm_upper_left(A, B, 0); break;
  case X_TRSM_UL_SQ: A = mk(r, n2, n); B = mk(r, n, m); SNAP(); mzd_trsm_upper_left(A, B, 0); break;
  case X_TRSM_LL_DIM: A = mk(r, n, n); B = mk(r, n2, m); SNAP(); mzd_trsm_lower_left(A, B, 0); break;
  case X_TRSM_LL_SQ: A = mk(r, n2, n); B = mk(r, n, m); SNAP(); mzd_trsm_lower_left(A, B, 0); break;
  case X_TRSM_UR_DIM: A = mk(r, n, n); B = mk(r, m, n2); SNAP(); mzd_trsm_upper_right(A, B, 0); break;
  case X_TRSM_UR_SQ: A = mk(r, n, n2); B = mk(r, m, n); SNAP(); mzd_trsm_upper_right(A, B, 0); break;
  case X_TRSM_LR_DIM: A = mk(r, n, n); B = mk(r, m, n2); SNAP(); mzd_trsm_lower_right(A, B, 0); break;
  case X_TRSM_LR_SQ: A = mk(r, n, n2); B = mk(r, m, n); SNAP(); mzd_trsm_lower_right(A, B, 0); break;
  case X_PLE_P: A = mk(r, m, n); mkp(0, m2); mkp(1, n); SNAP(); mzd_ple(A, PP[0], PP[1], 0); break;
  case X_PLE_Q: A = mk(r, m, n); mkp(0, m); mkp(1, n2); SNAP(); mzd_ple(A, PP[0], PP[1], 0); break;
  case X_PLUQ_P: A = mk(r, m, n); mkp(0, m2); mkp(1, n); SNAP(); mzd_pluq(A, PP[0], PP[1], 0); break;
  case X_PLUQ_Q: A = mk(r, m, n); mkp(0, m); mkp(1, n2); SNAP(); mzd_pluq(A, PP[0], PP[1], 0); break;
  case X_SOLVE_WIDE: A = mk(r, m, n + 5); B = mk(r, rng_int(r, 1, n + 4), l); SNAP(); mzd_solve_left(A, B, 0, 1); break;
  case X_SOLVE_ROWS: {
    int mx = m > n ? m : n;
    A = mk(r, m, n);
    B = mk(r, mx + rng_int(r, 1, 9), l);
    SNAP();
    mzd_solve_left(A, B, 0, 1);
    break;
  }
  case X_PSOLVE_WIDE: A = mk(r, m, n + 5); B = mk(r, rng_int(r, 1, n + 4), l); mkp(0, m); mkp(1, n + 5); SNAP(); mzd_pluq_solve_left(A, 0, PP[0], PP[1], B, 0, 1); break;
  case X_PSOLVE_P: A = mk(r, m, n); B = mk(r, m > n ? m : n, l); mkp(0, m2); mkp(1, n); SNAP(); mzd_pluq_solve_left(A, 0, PP[0], PP[1], B, 0, 1); break;
  case X_PSOLVE_Q: A = mk(r, m, n); B = mk(r, m > n ? m : n, l); mkp(0, m); mkp(1, n2); SNAP(); mzd_pluq_solve_left(A, 0, PP[0], PP[1], B, 0, 1); break;
  }
  AW_abort_hook = 0;
  { const char *mm = "HX-RETURNED\n"; if (write(2, mm, strlen(mm)) < 0) {} }
  _exit(0);
}

int mon_illdim(const mon_args_t *a) {
  for (long idx = a->from; idx < a->to; idx++) {
    rng_t r;
    mon_case_rng(&r, a, "illdim", idx);
    const scen_t *s = &SC[idx % NSC];
    hx_reset(idx);
    char kp[160];
    snprintf(kp, sizeof kp, "%s|illdim|%s", s->name, s->kind);
    hx_cls("%s:%s", s->name, s->kind);
    HX.nontrivial = 1;
    hx_begin(idx, kp, "ill-dimensioned call: wrapper=%s mismatch=%s", s->name, s->kind);
    int pfd[2];
    if (pipe(pfd)) hx_die("pipe");
    fflush(stdout);
    pid_t pid = fork();
    if (pid < 0) hx_die("fork");
    if (pid == 0) {
      close(pfd[0]);
      dup2(pfd[1], 2);
      close(pfd[1]);
      alarm(60);
      child(s, &r, a->maxdim);
      _exit(0);
    }
    close(pfd[1]);
    char buf[16384];
    size_t len = 0;
    ssize_t k;
    while ((k = read(pfd[0], buf + len, sizeof buf - 1 - len)) > 0) {
      len += (size_t)k;
      if (len >= sizeof buf - 1) break;
    }
    buf[len] = 0;
    close(pfd[0]);
    int st = 0;
    waitpid(pid, &st, 0);
    char key[256];
    int san = strstr(buf, "ERROR: AddressSanitizer") || strstr(buf, "runtime error:");
    if (san) {
      snprintf(key, sizeof key, "%s|sanitizer-report", kp);
      hx_fail(key, "sanitizer report during an ill-dimensioned call: %.600s", buf);
    } else if (strstr(buf, "HX-RETURNED")) {
      snprintf(key, sizeof key, "%s|no-abort", kp);
      hx_fail(key, "the call returned instead of ending in m4ri_die");
    } else if (!(WIFSIGNALED(st) && WTERMSIG(st) == SIGABRT)) {
      snprintf(key, sizeof key, "%s|wrong-termination", kp);
      hx_fail(key, "child ended with status 0x%x (expected SIGABRT through m4ri_die): %.300s", st, buf);
    } else if (strstr(buf, "HX-OPERANDS-MODIFIED")) {
      snprintf(key, sizeof key, "%s|operands-touched", kp);
      hx_fail(key, "an operand was modified before the library aborted");
    } else if (!strstr(buf, "HX-OPERANDS-UNTOUCHED")) {
      snprintf(key, sizeof key, "%s|abort-not-via-handler", kp);
      hx_fail(key, "SIGABRT without passing through the library's abort(): %.300s", buf);
    } else {
      /* a diagnostic must have been printed before the marker */
      const char *mk_ = strstr(buf, "HX-OPERANDS-UNTOUCHED");
      if (mk_ == buf) {
        snprintf(key, sizeof key, "%s|no-diagnostic", kp);
        hx_fail(key, "abort without a diagnostic on stderr");
      }
    }
    hx_end();
  }
  return 0;
}
