#!/usr/bin/env python3
"""Forge PNG and JCF files for the C18 monitor (python3 stdlib only: zlib, struct, random).
usage: forge.py <outdir> <seed> <npng_valid> <njcf_valid> <nmalformed>
Writes files plus index.tsv:  <file> \t <kind> \t <expect> \t <sidecar or ->
  expect = matrix : the reader must return exactly the matrix in the sidecar (rows of 0/1)
           reject : the reader must return NULL or terminate the process (abort)
           any    : accept or reject, but memory safe; if a sidecar is given and a matrix is returned it must match
"""
import os, random, struct, sys, zlib

def chunk(typ, data, badcrc=False):
    crc = zlib.crc32(typ + data) & 0xffffffff
    if badcrc:
        crc ^= 0x5a5a5a5a
    return struct.pack(">I", len(data)) + typ + data + struct.pack(">I", crc)

SIG = b"\x89PNG\r\n\x1a\n"
CHANNELS = {0: 1, 2: 3, 3: 1, 4: 2, 6: 4}

def paeth(a, b, c):
    p = a + b - c
    pa, pb, pc = abs(p - a), abs(p - b), abs(p - c)
    return a if pa <= pb and pa <= pc else (b if pb <= pc else c)

def filter_rows(rows, bpp, rnd, ftypes):
    out = bytearray()
    prev = bytes(len(rows[0])) if rows else b""
    for r in rows:
        ft = rnd.choice(ftypes)
        out.append(ft)
        line = bytearray(len(r))
        for i, x in enumerate(r):
            a = r[i - bpp] if i >= bpp else 0
            b = prev[i]
            c = prev[i - bpp] if i >= bpp else 0
            if ft == 0: v = x
            elif ft == 1: v = x - a
            elif ft == 2: v = x - b
            elif ft == 3: v = x - ((a + b) >> 1)
            else: v = x - paeth(a, b, c)
            line[i] = v & 0xff
        out += line
        prev = r
    return bytes(out)

def make_png(w, h, depth, ctype, rows, rnd, interlace=0, ftypes=(0,), extra_before_idat=(), extra_after_idat=(), split_idat=1, level=6, palette=None):
    ihdr = struct.pack(">IIBBBBB", w, h, depth, ctype, 0, 0, interlace)
    bpp = max(1, CHANNELS[ctype] * depth // 8)
    raw = filter_rows(rows, bpp, rnd, list(ftypes))
    z = zlib.compress(raw, level)
    parts = [SIG, chunk(b"IHDR", ihdr)]
    for c in extra_before_idat:
        parts.append(c)
    if ctype == 3:
        pal = palette if palette is not None else bytes([0, 0, 0, 255, 255, 255] + [rnd.randrange(256) for _ in range(3 * ((1 << depth) - 2))])
        parts.append(chunk(b"PLTE", pal[:3 * (1 << depth)]))
    n = max(1, split_idat)
    step = max(1, (len(z) + n - 1) // n)
    for i in range(0, len(z), step):
        parts.append(chunk(b"IDAT", z[i:i + step]))
    for c in extra_after_idat:
        parts.append(c)
    parts.append(chunk(b"IEND", b""))
    return parts

def rand_matrix(rnd, m, n, pat):
    if pat == 0:
        return [[rnd.getrandbits(1) for _ in range(n)] for _ in range(m)]
    if pat == 1:
        return [[0] * n for _ in range(m)]
    if pat == 2:
        return [[1] * n for _ in range(m)]
    M = [[0] * n for _ in range(m)]
    M[rnd.randrange(m)][n - 1 if rnd.random() < .5 else rnd.randrange(n)] = 1
    return M

def rows_1bit(M, n):
    """PNG 1-bit gray rows for matrix M: matrix 1 <-> black (sample 0), leftmost pixel in the most significant bit"""
    rows = []
    for r in M:
        b = bytearray((n + 7) // 8)
        for j, v in enumerate(r):
            if not v:  # white = 1
                b[j // 8] |= 0x80 >> (j % 8)
        rows.append(bytes(b))
    return rows

def write_sidecar(path, M):
    with open(path, "w") as f:
        f.write("%d %d\n" % (len(M), len(M[0]) if M else 0))
        for r in M:
            f.write("".join(map(str, r)) + "\n")

def main():
    out, seed, nvalid, njcf, nmal = sys.argv[1], int(sys.argv[2]), int(sys.argv[3]), int(sys.argv[4]), int(sys.argv[5])
    os.makedirs(out, exist_ok=True)
    rnd = random.Random(seed)
    idx = []
    cnt = [0]
    def emit(ext, data, kind, expect, M=None):
        cnt[0] += 1
        name = "f%05d.%s" % (cnt[0], ext)
        with open(os.path.join(out, name), "wb") as f:
            f.write(data)
        side = "-"
        if M is not None:
            side = name + ".bits"
            write_sidecar(os.path.join(out, side), M)
        idx.append("%s\t%s\t%s\t%s" % (name, kind, expect, side))

    def dims(i):
        n = [1, 2, 7, 8, 9, 15, 16, 17, 31, 33, 63, 64, 65, 100, 127, 128, 129, 191, 192, 193, 200][i % 21] if i % 3 else rnd.randrange(1, 260)
        m = rnd.choice([1, 2, 3, 5, 17, 40])
        return m, n

    # ---- valid 1-bit gray images written by an independent encoder (tests the reader alone)
    for i in range(nvalid):
        m, n = dims(i)
        M = rand_matrix(rnd, m, n, rnd.choice([0, 0, 0, 1, 2, 3]))
        extra = []
        if rnd.random() < .4:
            extra.append(chunk(b"tEXt", b"Comment\x00" + bytes(rnd.randrange(32, 127) for _ in range(rnd.randrange(0, 300)))))
        if rnd.random() < .2:
            extra.append(chunk(b"gAMA", struct.pack(">I", 45455)))
        parts = make_png(n, m, 1, 0, rows_1bit(M, n), rnd, ftypes=rnd.choice([(0,), (0, 1, 2, 3, 4), (4,), (1,)]), extra_before_idat=extra,
                         split_idat=rnd.choice([1, 1, 2, 5]), level=rnd.randrange(0, 10))
        emit("png", b"".join(parts), "valid-1bit-gray", "matrix", M)
        base = parts
        if i < nmal:
            # truncation at every chunk boundary and inside chunks of this valid file
            whole = b"".join(base)
            offs = [len(b"".join(base[:k])) for k in range(1, len(base))]
            last_idat = max(k for k in range(len(base)) if base[k][4:8] == b"IDAT")
            data_end = len(b"".join(base[:last_idat + 1])) - 4   # end of the image data (before the CRC of the last IDAT)
            for o in offs:
                emit("png", whole[:o], "truncated-at-chunk-boundary", "reject" if o < data_end else "any", M if o >= data_end else None)
            for _ in range(3):
                o = rnd.randrange(9, len(whole) - 1)
                emit("png", whole[:o], "truncated-inside", "reject" if o < data_end else "any", M if o >= data_end else None)
            # corrupted bytes, CRC left wrong (libpng must notice) and CRC fixed up
            for _ in range(2):
                k = rnd.randrange(1, len(base) - 1)
                c = bytearray(base[k])
                if len(c) > 12:
                    p = rnd.randrange(8, len(c) - 4)
                    c[p] ^= 1 << rnd.randrange(8)
                    broken = base[:k] + [bytes(c)] + base[k + 1:]
                    emit("png", b"".join(broken), "corrupt-byte-bad-crc", "any", M if base[k][4:8] not in (b"IHDR", b"IDAT", b"PLTE") else None)
                    fixed = bytes(c[:-4]) + struct.pack(">I", zlib.crc32(bytes(c[4:-4])) & 0xffffffff)
                    emit("png", b"".join(base[:k] + [fixed] + base[k + 1:]), "corrupt-byte-fixed-crc", "any")
            emit("png", b"\x89PNX" + whole[4:], "bad-signature", "reject")
            emit("png", whole[:8] + whole[8 + 25:], "missing-IHDR", "reject")
            emit("png", b"".join(base[:-1]) + b"garbage after the image" , "missing-IEND-trailing-bytes", "any", M)
            emit("png", whole + b"trailing bytes", "trailing-bytes", "any", M)

    # ---- every bit depth x colour type (valid files): only 1-bit gray / 1-bit palette can denote a 0/1 matrix
    for ctype, depths in ((0, (1, 2, 4, 8, 16)), (2, (8, 16)), (3, (1, 2, 4, 8)), (4, (8, 16)), (6, (8, 16))):
        for depth in depths:
            for rep in range(3):
                m, n = dims(rnd.randrange(1000))
                if rep == 2:
                    n = rnd.choice([64, 128, 200, 513])
                rowbytes = (n * depth * CHANNELS[ctype] + 7) // 8
                rows = [bytes(rnd.randrange(256) for _ in range(rowbytes)) for _ in range(m)]
                if depth < 8 and (n * depth) % 8:
                    # unused low bits of the last byte should be zero in a well-formed file
                    keep = 0xff << (8 - (n * depth) % 8) & 0xff
                    rows = [r[:-1] + bytes([r[-1] & keep]) for r in rows]
                for il in (0, 1):
                    if il and rep:
                        continue
                    parts = make_png(n, m, depth, ctype, rows, rnd, interlace=il)
                    supported = (depth == 1 and ctype in (0, 3) and il == 0)
                    kind = "depth%d-ctype%d%s" % (depth, ctype, "-interlaced" if il else "")
                    if supported and ctype == 0:
                        M = [[0 if (r[j // 8] >> (7 - j % 8)) & 1 else 1 for j in range(n)] for r in rows]
                        emit("png", b"".join(parts), kind, "matrix", M)
                    elif supported:
                        emit("png", b"".join(parts), kind, "any")
                    else:
                        emit("png", b"".join(parts), kind, "reject")
    # absurd dimensions with a tiny data stream
    for (w, h) in ((0x7fffffff, 1), (0x7fffffff, 0x7fffffff), (0x7fffffc0, 3), (0, 5), (5, 0), (0x80000000, 4), (4, 0x80000000)):
        ih = struct.pack(">IIBBBBB", w, h, 1, 0, 0, 0, 0)
        data = SIG + chunk(b"IHDR", ih) + chunk(b"IDAT", zlib.compress(b"\x00" * 40)) + chunk(b"IEND", b"")
        emit("png", data, "absurd-dimensions", "reject")
    # invalid IHDR fields with correct CRC
    for field, val in (("depth", 3), ("depth", 0), ("ctype", 1), ("ctype", 5), ("compression", 1), ("filter", 1), ("interlace", 2)):
        d = dict(depth=1, ctype=0, compression=0, filter=0, interlace=0)
        d[field] = val
        ih = struct.pack(">IIBBBBB", 20, 3, d["depth"], d["ctype"], d["compression"], d["filter"], d["interlace"])
        rows = [bytes(3)] * 3
        z = zlib.compress(b"".join(b"\x00" + r for r in rows))
        emit("png", SIG + chunk(b"IHDR", ih) + chunk(b"IDAT", z) + chunk(b"IEND", b""), "invalid-ihdr-" + field, "reject")
    # wrong amount of image data
    for delta in (-1, +5):
        m, n = 6, 77
        M = rand_matrix(rnd, m, n, 0)
        rows = rows_1bit(M, n)
        raw = b"".join(b"\x00" + r for r in rows)
        raw = raw[:delta] if delta < 0 else raw + bytes(delta)
        ih = struct.pack(">IIBBBBB", n, m, 1, 0, 0, 0, 0)
        emit("png", SIG + chunk(b"IHDR", ih) + chunk(b"IDAT", zlib.compress(raw)) + chunk(b"IEND", b""),
             "too-little-data" if delta < 0 else "too-much-data", "reject" if delta < 0 else "any", None if delta < 0 else M)
    emit("png", b"", "empty-file", "reject")
    emit("png", SIG, "signature-only", "reject")

    # ---- JCF
    def jcf_text(M, header=None, nz=None):
        m, n = len(M), len(M[0])
        lines = []
        for r in M:
            cols = [j + 1 for j, v in enumerate(r) if v]
            if not cols:
                return None
            lines.append("-%d" % cols[0])
            lines += ["%d" % c for c in cols[1:]]
        cnt_ = sum(sum(r) for r in M)
        return (header or "%d %d 2\n%d\n\n" % (m, n, cnt_ if nz is None else nz)) + "\n".join(lines) + "\n"
    for i in range(njcf):
        m, n = dims(i)
        while True:
            M = rand_matrix(rnd, m, n, 0)
            for r in M:
                if not any(r):
                    r[rnd.randrange(n)] = 1   # the format cannot express an empty row before a non-empty one
            t = jcf_text(M)
            if t:
                break
        emit("jcf", t.encode(), "valid-jcf", "matrix", M)
        if i < nmal:
            toks = t.split("\n")
            body0 = 3  # first entry line
            def variant(kind, expect, lines):
                emit("jcf", ("\n".join(lines) + "\n").encode(), kind, expect)
            l = list(toks); l[body0] = "0"; variant("index-zero-first", "reject", l)
            if len(toks) > body0 + 2:
                l = list(toks); l[body0 + 1] = "0"; variant("index-zero", "reject", l)
            l = list(toks); l[body0] = l[body0].lstrip("-"); variant("positive-first-entry", "reject", l)
            l = list(toks); l[body0] = "-%d" % (n + 1); variant("index-gt-ncols", "reject", l)
            l = list(toks); l[body0] = "-%d" % (n + rnd.randrange(2, 5000)); variant("index-far-gt-ncols", "reject", l)
            l = list(toks); l.insert(len(l) - 1, "%d" % (n + 1)); variant("last-index-gt-ncols", "reject", l)
            l = list(toks[:-1]) + ["-1", ""]; variant("too-many-rows", "reject", l)
            l = list(toks[:-1]) + ["-1"] * rnd.randrange(2, 40) + [""]; variant("far-too-many-rows", "reject", l)
            l = list(toks); l[0] = "%d %d 3" % (m, n); variant("wrong-modulus", "reject", l)
            l = list(toks); l[0] = "%d %d" % (m, n); variant("short-header", "any", l)
            l = list(toks[2:]); variant("missing-header", "any", l)
            l = list(toks); l[0] = "-%d %d 2" % (m, n); variant("negative-rows", "reject", l)
            l = list(toks); l[0] = "%d -%d 2" % (m, n); variant("negative-cols", "reject", l)
            l = list(toks); l[body0] = "-9223372036854775808"; variant("long-min-token", "reject", l)
            l = list(toks); l[body0] = "9223372036854775807"; variant("long-max-token", "reject", l)
            l = list(toks); l[body0] = "x7"; variant("non-numeric-token", "any", l)
            l = list(toks); l[0] = "banana"; variant("non-numeric-header", "reject", l)
    emit("jcf", b"", "empty-jcf", "reject")
    with open(os.path.join(out, "index.tsv"), "w") as f:
        f.write("\n".join(idx) + "\n")
    print(len(idx))

if __name__ == "__main__":
    main()
