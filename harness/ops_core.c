#include "ops.h"
#include <stdarg.h>
#include <stdio.h>
#include <stdlib.h>
#include <string.h>

const op_t *op_find(const char *name) {
  for (int i = 0; i < NOPS; i++)
    if (strcmp(OPS[i].name, name) == 0) return &OPS[i];
  return NULL;
}

void opcase_init(opcase_t *c, const op_t *op) {
  memset(c, 0, sizeof *c);
  c->op = op;
  for (int i = 0; i < MAXSLOT; i++) {
    c->same_as[i] = -1;
    c->plc[i] = -1;
  }
  snprintf(c->pcls, sizeof c->pcls, "-");
}

void opcase_place(opcase_t *c, rng_t *r, int policy) {
  if (c->shared_union && c->plc[c->shared_slot[0]] < 0 && c->plc[c->shared_slot[1]] < 0) { /* not when a placement is forced (standalone reference runs) */
    c->host = opnd_make(r, c->shared_union, rng_chance(r, 1, 2) ? PL_WIN_EVEN : PL_WIN_ODD);
    for (int k = 0; k < 2; k++) {
      int i = c->shared_slot[k];
      c->o[i] = opnd_make_in_parent(c->host, c->in[i]->m, c->in[i]->n);
    }
  }
  for (int i = 0; i < MAXSLOT; i++) {
    if (c->op->role[i] == R_NONE) continue;
    if (c->same_as[i] >= 0) continue;
    if (!c->in[i]) continue; /* NULL destination */
    if (c->o[i]) continue;   /* already placed (shared parent) */
    int kind = c->plc[i];
    if (kind < 0) {
      if (policy == 0 || (c->op->flags & OPF_NOWIN))
        kind = PL_OWN;
      else {
        int x = rng_int(r, 0, 9);
        kind = x < 3 ? PL_OWN : x < 6 ? PL_WIN_EVEN : PL_WIN_ODD;
      }
    }
    c->o[i] = opnd_make(r, c->in[i], kind);
  }
  for (int i = 0; i < MAXSLOT; i++)
    if (c->same_as[i] >= 0) c->o[i] = c->o[c->same_as[i]];
}

void opcase_run(opcase_t *c) {
  for (int i = 0; i < MAXSLOT; i++)
    if (c->o[i] && c->same_as[i] < 0) opnd_snapshot(c->o[i]);
  c->op->run(c);
  c->ran = 1;
}

/* coarse placement class used in violation keys */
void opcase_placements(opcase_t *c, char *buf, size_t cap) {
  int allown = 1;
  for (int i = 0; i < MAXSLOT; i++)
    if (c->o[i] && c->o[i]->kind != PL_OWN) allown = 0;
  snprintf(buf, cap, allown ? "own" : "win");
}
/* per-slot placement tuple (coverage classes) */
void opcase_placements_detail(opcase_t *c, char *buf, size_t cap) {
  buf[0] = 0;
  size_t l = 0;
  for (int i = 0; i < MAXSLOT; i++) {
    if (c->op->role[i] == R_NONE) continue;
    const char *s = c->same_as[i] >= 0 ? "alias" : (c->o[i] ? (c->o[i]->kind == PL_OWN ? "own" : c->o[i]->kind == PL_WIN_EVEN ? "winE" : "winO") : "null");
    /* coarse class for keys: own / winE / winO + excess flag */
    char x = (c->o[i] && c->o[i]->kind != PL_OWN && (c->o[i]->M->ncols % 64)) ? 'x' : 0;
    l += snprintf(buf + l, cap > l ? cap - l : 0, "%s%d=%s%s", l ? "," : "", i, s, x ? "x" : "");
    if (l >= cap) break;
  }
}

void opcase_fail(opcase_t *c, const char *kind, const char *fmt, ...) {
  char key[512], msg[1024], plc[160];
  opcase_placements(c, plc, sizeof plc);
  snprintf(key, sizeof key, "%s|%s|%s|%s", c->op->name, plc, c->pcls, kind);
  va_list ap;
  va_start(ap, fmt);
  vsnprintf(msg, sizeof msg, fmt, ap);
  va_end(ap);
  hx_fail(key, "%s :: %s", msg, c->desc);
}

void opcase_generic_checks(opcase_t *c) {
  for (int i = 0; i < MAXSLOT; i++) {
    opnd_t *o = c->o[i];
    if (!o || c->same_as[i] >= 0) continue;
    int role = c->op->role[i];
    /* a slot aliased by a written slot is written too */
    for (int j = 0; j < MAXSLOT; j++)
      if (c->same_as[j] == i && c->op->role[j] != R_RO) role = R_RW;
    if (role == R_RO) {
      long d = opnd_total_diff(o);
      if (d) opcase_fail(c, "operand-modified", "read-only operand %d: %ld words of its allocation changed", i, d);
    } else {
      long d = opnd_outside_diff(o);
      if (d) opcase_fail(c, o->parent ? "parent-clobbered" : "outside-view-written", "operand %d: %ld bits outside the view changed", i, d);
    }
    long p = opnd_padding_bits(o);
    if (p) opcase_fail(c, "padding-nonzero", "operand %d (%s): %ld padding bits set in storage owner", i, o->cls, p);
  }
  if (c->ret) {
    int isop = 0;
    for (int i = 0; i < MAXSLOT; i++)
      if (c->o[i] && c->o[i]->M == c->ret) isop = 1;
    if (!isop) {
      long p = mzd_padding_bits(c->ret);
      if (p) opcase_fail(c, "padding-nonzero", "returned matrix %dx%d: %ld padding bits set", c->ret->nrows, c->ret->ncols, p);
    }
  }
}

void opcase_check(opcase_t *c) {
  if (c->op->check) c->op->check(c);
  opcase_generic_checks(c);
}

static uint64_t mix(uint64_t h, uint64_t v) {
  h ^= v + 0x9e3779b97f4a7c15ULL + (h << 6) + (h >> 2);
  return h * 0xff51afd7ed558ccdULL;
}
uint64_t opcase_digest(opcase_t *c) {
  uint64_t h = 0x1234;
  for (int i = 0; i < MAXSLOT; i++) {
    if (!c->o[i] || c->same_as[i] >= 0) continue;
    if (c->op->role[i] == R_RO) continue;
    h = mix(h, mzd_raw_digest(c->o[i]->M));
  }
  if (c->ret) {
    int isop = 0;
    for (int i = 0; i < MAXSLOT; i++)
      if (c->o[i] && c->o[i]->M == c->ret) isop = 1;
    if (!isop) h = mix(h, mzd_raw_digest(c->ret));
    h = mix(h, 77);
  } else
    h = mix(h, 78);
  for (int i = 0; i < c->niret; i++) h = mix(h, (uint64_t)c->iret[i]);
  if (c->P)
    for (int i = 0; i < c->P->length; i++) h = mix(h, (uint64_t)c->P->values[i]);
  if (c->Q)
    for (int i = 0; i < c->Q->length; i++) h = mix(h, (uint64_t)c->Q->values[i]);
  return h;
}

uint64_t opcase_canon(opcase_t *c) { return c->op->canon ? c->op->canon(c) : opcase_digest(c); }

void opcase_clone_inputs(opcase_t *dst, const opcase_t *src) {
  opcase_init(dst, src->op);
  for (int i = 0; i < MAXSLOT; i++) {
    dst->in[i] = src->in[i] ? rm_copy(src->in[i]) : NULL;
    dst->same_as[i] = src->same_as[i];
    dst->plc[i] = src->plc[i];
    dst->overwr[i] = src->overwr[i];
  }
  dst->shared_union = src->shared_union ? rm_copy(src->shared_union) : NULL;
  dst->shared_slot[0] = src->shared_slot[0];
  dst->shared_slot[1] = src->shared_slot[1];
  memcpy(dst->ip, src->ip, sizeof src->ip);
  memcpy(dst->dp, src->dp, sizeof src->dp);
  for (int k = 0; k < 2; k++) {
    dst->pvlen[k] = src->pvlen[k];
    if (src->pv[k]) {
      dst->pv[k] = malloc(sizeof(int) * (src->pvlen[k] + 1));
      memcpy(dst->pv[k], src->pv[k], sizeof(int) * src->pvlen[k]);
    }
  }
  memcpy(dst->pcls, src->pcls, sizeof src->pcls);
  memcpy(dst->desc, src->desc, sizeof src->desc);
  dst->nontrivial = src->nontrivial;
}

void opcase_cleanup(opcase_t *c) {
  if (c->ret) {
    int isop = 0;
    for (int i = 0; i < MAXSLOT; i++)
      if (c->o[i] && c->o[i]->M == c->ret) isop = 1;
    if (!isop) mzd_free(c->ret);
    c->ret = NULL;
  }
  for (int i = 0; i < MAXSLOT; i++) {
    if (c->o[i] && c->same_as[i] < 0) opnd_free(c->o[i]);
    c->o[i] = NULL;
  }
  if (c->host) opnd_free(c->host);
  c->host = NULL;
  rm_free(c->shared_union);
  c->shared_union = NULL;
  if (c->P) mzp_free(c->P);
  if (c->Q) mzp_free(c->Q);
  c->P = c->Q = NULL;
  for (int i = 0; i < MAXSLOT; i++) {
    rm_free(c->in[i]);
    c->in[i] = NULL;
  }
  for (int k = 0; k < 2; k++) {
    free(c->pv[k]);
    c->pv[k] = NULL;
  }
}

int opcase_expect(opcase_t *c, const mzd_t *got, const rm_t *exp, const char *what) {
  if (!got) {
    opcase_fail(c, "wrong-result", "%s: NULL result, expected %dx%d matrix", what, exp->m, exp->n);
    return 0;
  }
  if (got->nrows != exp->m || got->ncols != exp->n) {
    opcase_fail(c, "wrong-result", "%s: dimensions %dx%d, expected %dx%d", what, got->nrows, got->ncols, exp->m, exp->n);
    return 0;
  }
  rm_t *g = rm_from_mzd(got);
  long d = rm_first_diff(g, exp);
  if (d >= 0) {
    long nd = rm_count_diff(g, exp);
    opcase_fail(c, "wrong-result", "%s: %ld of %ld entries differ from the model, first at (%ld,%ld): got %d", what, nd, (long)exp->m * exp->n,
                exp->n ? d / exp->n : 0, exp->n ? d % exp->n : 0, (int)g->e[d]);
  }
  rm_free(g);
  return d < 0;
}
