#include "hx.h"
#include <stdarg.h>
#include <stdio.h>
#include <stdlib.h>
#include <string.h>
#include <unistd.h>

__thread hx_ctx_t HX;
__thread char *HX_FAILBUF;
__thread size_t HX_FAILCAP;

static void sanitize(char *s) {
  for (; *s; s++)
    if (*s == '\n' || *s == '\r' || *s == '\t') *s = ' ';
}
void hx_reset(long idx) {
  HX.idx = idx;
  HX.nfail = 0;
  HX.nontrivial = 0;
  HX.cls[0] = 0;
  HX.tags[0] = 0;
  HX.open = 0;
}
void hx_begin(long idx, const char *keyprefix, const char *fmt, ...) {
  char buf[1024];
  va_list ap;
  va_start(ap, fmt);
  vsnprintf(buf, sizeof buf, fmt, ap);
  va_end(ap);
  sanitize(buf);
  HX.idx = idx;
  HX.open = 1;
  printf("B\t%ld\t%s\t%s\n", idx, keyprefix, buf);
  fflush(stdout);
}
void hx_fail(const char *key, const char *fmt, ...) {
  char buf[2048];
  va_list ap;
  va_start(ap, fmt);
  vsnprintf(buf, sizeof buf, fmt, ap);
  va_end(ap);
  sanitize(buf);
  HX.nfail++;
  if (HX_FAILBUF) {
    size_t l = strlen(HX_FAILBUF);
    if (l + strlen(key) + 300 < HX_FAILCAP) snprintf(HX_FAILBUF + l, HX_FAILCAP - l, "%s\t%.250s\n", key, buf);
    return;
  }
  printf("F\t%ld\t%s\t%s\n", HX.idx, key, buf);
  fflush(stdout);
}
static void appendf(char *dst, size_t cap, const char *fmt, va_list ap) {
  char item[256];
  vsnprintf(item, sizeof item, fmt, ap);
  size_t l = strlen(dst), il = strlen(item);
  /* skip duplicates */
  for (const char *p = dst; (p = strstr(p, item)) != NULL; p += il)
    if ((p == dst || p[-1] == ',') && (p[il] == ',' || p[il] == 0)) return;
  if (l + il + 2 >= cap) return;
  if (l) dst[l++] = ',';
  memcpy(dst + l, item, il + 1);
}
void hx_tag(const char *fmt, ...) {
  va_list ap;
  va_start(ap, fmt);
  appendf(HX.tags, sizeof HX.tags, fmt, ap);
  va_end(ap);
}
void hx_cls(const char *fmt, ...) {
  va_list ap;
  va_start(ap, fmt);
  appendf(HX.cls, sizeof HX.cls, fmt, ap);
  va_end(ap);
}
void hx_end(void) {
  sanitize(HX.cls);
  sanitize(HX.tags);
  printf("E\t%ld\t%d\t%d\t%s\t%s\n", HX.idx, HX.nfail, HX.nontrivial, HX.cls[0] ? HX.cls : "-", HX.tags[0] ? HX.tags : "-");
  fflush(stdout);
  HX.open = 0;
}
void hx_note(const char *fmt, ...) {
  char buf[2048];
  va_list ap;
  va_start(ap, fmt);
  vsnprintf(buf, sizeof buf, fmt, ap);
  va_end(ap);
  sanitize(buf);
  printf("N\t%s\n", buf);
  fflush(stdout);
}
void hx_die(const char *fmt, ...) {
  va_list ap;
  va_start(ap, fmt);
  fprintf(stderr, "HARNESS-FAILURE: ");
  vfprintf(stderr, fmt, ap);
  fprintf(stderr, "\n");
  va_end(ap);
  fflush(stderr);
  fflush(stdout);
  _exit(2);
}

rm_t *rm_from_mzd(const mzd_t *M) {
  rm_t *A = rm_new(M->nrows, M->ncols);
  for (int i = 0; i < M->nrows; i++) {
    const word *row = M->data + (size_t)i * M->rowstride;
    uint8_t *e = A->e + (size_t)i * A->n;
    for (int j = 0; j < M->ncols; j++) e[j] = (row[j >> 6] >> (j & 63)) & 1;
  }
  return A;
}
void rm_to_mzd(mzd_t *M, const rm_t *A) {
  if (M->nrows != A->m || M->ncols != A->n) hx_die("rm_to_mzd: dimension mismatch %dx%d vs %dx%d", M->nrows, M->ncols, A->m, A->n);
  for (int i = 0; i < A->m; i++) {
    word *row = M->data + (size_t)i * M->rowstride;
    const uint8_t *e = A->e + (size_t)i * A->n;
    for (int j = 0; j < A->n; j++) {
      word bit = (word)1 << (j & 63);
      if (e[j])
        row[j >> 6] |= bit;
      else
        row[j >> 6] &= ~bit;
    }
  }
}
uint64_t mzd_raw_digest(const mzd_t *M) {
  rm_t *A = rm_from_mzd(M);
  uint64_t d = rm_digest(A);
  rm_free(A);
  return d;
}

static word last_mask(int ncols) { return (ncols % 64) ? (((word)1 << (ncols % 64)) - 1) : ~(word)0; }

long mzd_padding_bits(const mzd_t *M) {
  if (M->nrows == 0 || M->ncols == 0 || M->data == NULL) return 0;
  word mask = ~last_mask(M->ncols);
  if (!mask) return 0;
  long c = 0;
  int w = (M->ncols + 63) / 64;
  for (int i = 0; i < M->nrows; i++) c += __builtin_popcountll(M->data[(size_t)i * M->rowstride + w - 1] & mask);
  return c;
}

static void fill_random_valid(rng_t *r, mzd_t *P) {
  int w = (P->ncols + 63) / 64;
  word lm = last_mask(P->ncols);
  for (int i = 0; i < P->nrows; i++) {
    word *row = P->data + (size_t)i * P->rowstride;
    for (int j = 0; j < w; j++) row[j] = rng_u64(r);
    row[w - 1] &= lm;
  }
}

opnd_t *opnd_make(rng_t *r, const rm_t *val, int kind) {
  opnd_t *o = calloc(1, sizeof *o);
  int m = val->m, n = val->n;
  if (kind < 0) kind = rng_int(r, 0, 2);
  if (m == 0 || n == 0) kind = PL_OWN;
  o->kind = kind;
  if (kind == PL_OWN) {
    o->M = mzd_init(m, n);
    if (m && n) rm_to_mzd(o->M, val);
    snprintf(o->cls, sizeof o->cls, "own");
    return o;
  }
  static const int roffs[] = {0, 0, 1, 3, 5, 2};
  int r0 = roffs[rng_int(r, 0, 5)];
  int rafter = rng_int(r, 0, 2);
  int wo = (kind == PL_WIN_EVEN) ? 2 * rng_int(r, 0, 2) : 1 + 2 * rng_int(r, 0, 1);
  int c0 = 64 * wo;
  int extra;
  int rem = (n % 64) ? 64 - n % 64 : 0;
  int c = rng_int(r, 0, 3);
  if (c == 0)
    extra = 0;
  else if (c == 1 && rem > 0)
    extra = rng_int(r, 1, rem);
  else if (c == 2)
    extra = rem + 64 * rng_int(r, 0, 2) + rng_int(r, 1, 64);
  else
    extra = rem + rng_int(r, 0, 70);
  int pr = r0 + m + rafter, pc = c0 + n + extra;
  o->parent = mzd_init(pr, pc);
  o->zero_surround = rng_chance(r, 1, 10);
  if (!o->zero_surround) fill_random_valid(r, o->parent);
  o->M = mzd_init_window(o->parent, r0, c0, r0 + m, c0 + n);
  o->r0 = r0;
  o->c0 = c0;
  rm_to_mzd(o->M, val);
  snprintf(o->cls, sizeof o->cls, "win%c%s%s%s", kind == PL_WIN_EVEN ? 'E' : 'O', (n % 64) ? "x" : "z", r0 ? "r" : "", o->zero_surround ? "0" : "");
  return o;
}
opnd_t *opnd_make_in_parent(const opnd_t *host, int m, int n) {
  opnd_t *o = calloc(1, sizeof *o);
  o->kind = host->kind;
  o->parent = host->parent;
  o->borrowed_parent = 1;
  o->r0 = host->r0;
  o->c0 = host->c0;
  o->zero_surround = host->zero_surround;
  o->M = mzd_init_window(o->parent, o->r0, o->c0, o->r0 + m, o->c0 + n);
  snprintf(o->cls, sizeof o->cls, "%s+", host->cls);
  return o;
}
opnd_t *opnd_wrap(mzd_t *M) {
  opnd_t *o = calloc(1, sizeof *o);
  o->M = M;
  o->kind = PL_OWN;
  snprintf(o->cls, sizeof o->cls, "own");
  return o;
}
const char *opnd_cls(const opnd_t *o) { return o ? o->cls : "null"; }

static mzd_t *owner(const opnd_t *o) { return o->parent ? o->parent : o->M; }

void opnd_snapshot(opnd_t *o) {
  mzd_t *P = owner(o);
  size_t nw = mzd_alloc_words(P);
  if (o->snap && o->nwords != nw) {
    free(o->snap);
    o->snap = NULL;
  }
  if (!o->snap) o->snap = malloc(nw * sizeof(word) + 8);
  o->nwords = nw;
  if (nw) memcpy(o->snap, P->data, nw * sizeof(word));
}
long opnd_total_diff(const opnd_t *o) {
  mzd_t *P = owner(o);
  long c = 0;
  if (mzd_alloc_words(P) != o->nwords) return -1;
  for (size_t i = 0; i < o->nwords; i++) c += P->data[i] != o->snap[i];
  return c;
}
long opnd_outside_diff(const opnd_t *o) {
  mzd_t *P = owner(o);
  if (mzd_alloc_words(P) != o->nwords) return -1;
  long c = 0;
  int m = o->M->nrows, n = o->M->ncols;
  int w0 = o->parent ? o->c0 / 64 : 0, r0 = o->parent ? o->r0 : 0;
  int vw = (n + 63) / 64;
  word lm = last_mask(n);
  for (int i = 0; i < P->nrows; i++) {
    const word *cur = P->data + (size_t)i * P->rowstride;
    const word *old = o->snap + (size_t)i * P->rowstride;
    int inrow = (i >= r0 && i < r0 + m);
    for (int j = 0; j < P->rowstride; j++) {
      word d = cur[j] ^ old[j];
      if (!d) continue;
      if (inrow && j >= w0 && j < w0 + vw) {
        word mask = (j == w0 + vw - 1) ? lm : ~(word)0;
        d &= ~mask;
      }
      c += __builtin_popcountll(d);
    }
  }
  return c;
}
long opnd_padding_bits(const opnd_t *o) { return mzd_padding_bits(owner(o)); }
rm_t *opnd_value(const opnd_t *o) { return rm_from_mzd(o->M); }
void opnd_free(opnd_t *o) {
  if (!o) return;
  if (o->parent) {
    mzd_free(o->M);
    if (!o->borrowed_parent) mzd_free(o->parent);
  } else if (o->M)
    mzd_free(o->M);
  free(o->snap);
  free(o);
}
void opnd_rerandomize_surround(rng_t *r, opnd_t *o) {
  if (!o->parent) return;
  rm_t *v = opnd_value(o);
  fill_random_valid(r, o->parent);
  rm_to_mzd(o->M, v);
  rm_free(v);
}

void rm_apply_p_rows_asc(rm_t *A, const int *p, int len) {
  for (int i = 0; i < len; i++) rm_swap_rows(A, i, p[i]);
}
void rm_apply_p_rows_desc(rm_t *A, const int *p, int len) {
  for (int i = len - 1; i >= 0; i--) rm_swap_rows(A, i, p[i]);
}
void rm_apply_p_cols_asc(rm_t *A, const int *p, int len) {
  for (int i = 0; i < len; i++) rm_swap_cols(A, i, p[i]);
}
void rm_apply_p_cols_desc(rm_t *A, const int *p, int len) {
  for (int i = len - 1; i >= 0; i--) rm_swap_cols(A, i, p[i]);
}

const char *hx_build_info(void) {
  static char buf[512];
  snprintf(buf, sizeof buf, "L1=%d L2=%d L3=%d sse2=%d openmp=%d mmc=%d mzdcache=%d mulblock=%d strassen_cutoff=%d ple_cutoff=%d",
           (int)__M4RI_CPU_L1_CACHE, (int)__M4RI_CPU_L2_CACHE, (int)__M4RI_CPU_L3_CACHE, (int)__M4RI_HAVE_SSE2, (int)__M4RI_HAVE_OPENMP,
           (int)__M4RI_ENABLE_MMC, (int)__M4RI_ENABLE_MZD_CACHE, (int)__M4RI_MUL_BLOCKSIZE, (int)__M4RI_STRASSEN_MUL_CUTOFF,
           (int)__M4RI_PLE_CUTOFF);
  return buf;
}
