/* Elimination, factorisation, triangular solving, inversion, solving, kernel (C02-C07). */
#include "ops.h"
#include <stdio.h>
#include <stdlib.h>
#include <string.h>

static char dimcls(int d) {
  return d < 16 ? 'a' : d < 54 ? 'b' : d < 64 ? 'c' : d == 64 ? 'd' : d < 128 ? 'e' : d < 256 ? 'f' : d < 512 ? 'g' : d < 1024 ? 'h' : 'i';
}
static char modcls(int d) { return d % 64 == 0 ? '0' : d % 64 == 1 ? '1' : d % 64 == 63 ? '9' : 'x'; }
static const int CUTOFFS[] = {0, 0, 0, 1, 63, 64, 65, 100, 128, 192, 256, 512, 1000, 2048, 4096};
#define NCUT ((int)(sizeof CUTOFFS / sizeof CUTOFFS[0]))

/* ------------------------------------------------------------------ echelon forms (C02) */
enum { E_NAIVE, E_GAUSS, E_M4RI, E__M4RI, E_HYBRID, E_PLUQ, E_TOP };
static const double THRESH[] = {0.0, 0.05, 0.15, 0.5, 1.0, 2.0};

/* shared input generator for elimination-like ops: returns matrix, fills description */
int GEN_AIM_BOOST = 0; /* set by the cross-configuration monitor: favour shapes that are recursive in one build and base case in another */
static __thread int PREFER_BLOCK; /* set by aim_recursive_shape: the next input should favour block rank profiles */
/* shapes that straddle the base-case / block-recursion boundary of PLE (width*nrows around the PLE cutoff, ncols > 64) */
static int aim_recursive_shape(rng_t *r, int md, int *pm, int *pn) {
  long cut = GC.ple_cutoff;
  int n = rng_chance(r, 1, 2) && md > 270 ? rng_int(r, 260, md) : 65 + rng_int(r, 0, md > 66 ? md - 66 : 0);
  long w = (n + 63) / 64;
  int m = (int)(cut / w) + rng_int(r, -2, 40);
  if (m < 1) m = 1;
  if (m > 8 * md) return 0;
  *pm = m;
  *pn = n;
  PREFER_BLOCK = 1;
  return 1;
}
static rm_t *gen_elim_input(rng_t *r, int m, int n, char *desc, size_t cap, int *rank_out, int *kind_out) {
  int c = rng_int(r, 0, 99);
  if (PREFER_BLOCK && n >= 200 && m >= 8 && rng_chance(r, 1, 2)) c = 65;
  PREFER_BLOCK = 0;
  rm_t *A;
  int rk = -1, kind = -1;
  if (c < 62) {
    int sparse = rng_chance(r, 1, 3);
    A = gen_rankprof(r, m, n, -1, sparse, NULL, &rk, &kind);
    snprintf(desc, cap, "rankprof=%s%s r=%d", rp_name(kind), sparse ? ":sparse" : "", rk);
  } else if (c < 70 && n >= 200 && m >= 8) {
    /* block profile aimed at the block-recursive algorithms: the left column half (split at a word boundary) has a rank that is
       a multiple of 64 (incl. 0) or arbitrary but deficient, the right half contributes many pivots */
    int n1 = ((((n - 1) / 64) + 1) >> 1) * 64;
    static const int R1[] = {0, 0, 64, 64, 128, 192, -1, -1};
    int r1 = R1[rng_int(r, 0, 7)];
    int lim = n1 < m ? n1 : m;
    if (r1 < 0 || r1 >= lim) r1 = rng_int(r, 0, lim - 1);
    int r2max = (n - n1) < (m - r1) ? (n - n1) : (m - r1);
    int r2 = rng_chance(r, 1, 2) ? r2max : rng_int(r, 0, r2max);
    rm_t *Lf = gen_mat(r, m, r1, PAT_DENSE), *Ef = gen_mat(r, r1, n1, PAT_DENSE), *Lr = gen_mat(r, m, r2, PAT_DENSE), *Er = gen_mat(r, r2, n - n1, PAT_DENSE);
    rm_t *Al = rm_mul(Lf, Ef), *Ar = rm_mul(Lr, Er);
    A = rm_concat(Al, Ar);
    rm_free(Lf);
    rm_free(Ef);
    rm_free(Lr);
    rm_free(Er);
    rm_free(Al);
    rm_free(Ar);
    snprintf(desc, cap, "blockprofile n1=%d r1<=%d r2<=%d", n1, r1, r2);
    kind = 300 + (r1 % 64 == 0) * 10 + (r2 >= 128);
  } else if (c < 76 && n > 330) {
    /* low density head (> 256 columns) followed by a dense tail: density switch happens mid-way */
    int c1 = rng_int(r, 270, n - 20);
    A = rm_new(m, n);
    for (int i = 0; i < m; i++)
      for (int j = 0; j < n; j++) RM(A, i, j) = j < c1 ? ((rng_u64(r) % 1000) < 8) : (rng_u64(r) & 1);
    snprintf(desc, cap, "sparsehead=%d+densetail", c1);
    kind = 100;
  } else {
    int p = gen_pat(r);
    A = gen_mat(r, m, n, p);
    snprintf(desc, cap, "pat=%s", pat_name(p));
    kind = 200 + p;
  }
  if (rank_out) *rank_out = rk;
  if (kind_out) *kind_out = kind;
  return A;
}

static void gen_ech(opcase_t *c, rng_t *r, int maxdim) {
  int v = c->op->variant;
  int m = gen_dim(r, maxdim), n = gen_dim(r, maxdim + maxdim / 2);
  if ((v == E_PLUQ || v == E_HYBRID || v == E__M4RI) && rng_chance(r, 1, GEN_AIM_BOOST ? 2 : 6)) aim_recursive_shape(r, maxdim, &m, &n);
  int full = rng_int(r, 0, 1), k = rng_int(r, 0, 10), heur = 0;
  /* very wide and at most 3 rows: the automatic k starts at 1 and the cache correction (ncols > L3/3) takes one off - only affordable
   * for the smallest cache triple (21 846 columns); always with automatic k */
  int flat = (maxdim >= 200 && GC.l3 <= 131072 && rng_chance(r, 1, 60));
  if (flat) {
    m = rng_int(r, 1, 3);
    n = (int)(GC.l3 / 3) + rng_int(r, 1, 3000);
    k = 0;
    hx_tag("ech_flat_beyond_l3");
  }
  double thr = 1.0;
  char d[96];
  int kind;
  if (v == E_TOP) {
    /* input: a (non-reduced) row echelon form built directly: leading ones at chosen pivots, random to the right */
    int mn = m < n ? m : n, *piv = malloc(sizeof(int) * (mn + 1)), rk;
    rm_t *T = gen_rankprof(r, m, n, -1, 0, piv, &rk, &kind);
    rm_free(T);
    rm_t *A = rm_new(m, n);
    int sparse = rng_chance(r, 1, 4);
    for (int i = 0; i < rk; i++) {
      RM(A, i, piv[i]) = 1;
      for (int j = piv[i] + 1; j < n; j++) RM(A, i, j) = sparse ? (rng_u64(r) % 100 < 4) : (rng_u64(r) & 1);
    }
    free(piv);
    c->in[0] = A;
    snprintf(d, sizeof d, "ref rankprof=%s r=%d", rp_name(kind), rk);
    full = 1;
  } else
    c->in[0] = gen_elim_input(r, m, n, d, sizeof d, NULL, &kind);
  if (v == E__M4RI) {
    heur = rng_int(r, 0, 1);
    thr = THRESH[rng_int(r, 0, 5)];
  }
  c->ip[0] = full;
  c->ip[1] = k;
  c->ip[2] = heur;
  c->dp[0] = thr;
  snprintf(c->pcls, sizeof c->pcls, "full=%d", full);
  snprintf(c->desc, sizeof c->desc, "m=%d n=%d %s full=%d k=%d heur=%d thr=%.2f", m, n, d, full, k, heur, thr);
  hx_cls("%s:f%d:k%d:h%d:%c%c%c%c:%d", c->op->name, full, (v == E_M4RI || v == E__M4RI || v == E_TOP) ? k : 0, heur, dimcls(m), modcls(m), dimcls(n),
         modcls(n), kind);
}
static void run_ech(opcase_t *c) {
  mzd_t *A = c->o[0]->M;
  int full = (int)c->ip[0], k = (int)c->ip[1];
  c->niret = 1;
  switch (c->op->variant) {
  case E_NAIVE: c->iret[0] = mzd_echelonize_naive(A, full); break;
  case E_GAUSS: c->iret[0] = mzd_gauss_delayed(A, 0, full); break;
  case E_M4RI: c->iret[0] = mzd_echelonize_m4ri(A, full, k); break;
  case E__M4RI: c->iret[0] = _mzd_echelonize_m4ri(A, full, k, (int)c->ip[2], c->dp[0]); break;
  case E_HYBRID: c->iret[0] = mzd_echelonize(A, full); break;
  case E_PLUQ: c->iret[0] = mzd_echelonize_pluq(A, full); break;
  case E_TOP:
    mzd_top_echelonize_m4ri(A, k);
    c->niret = 0;
    break;
  }
}
static void check_ech(opcase_t *c) {
  const rm_t *A0 = INV(c, 0);
  int mn = A0->m < A0->n ? A0->m : A0->n;
  int *piv = malloc(sizeof(int) * (mn + 1)), rk;
  rm_t *R = rm_rref(A0, piv, &rk);
  int gapped = 0;
  for (int i = 0; i < rk; i++)
    if (piv[i] != i) gapped = 1;
  c->nontrivial = rk > 0 && gapped;
  hx_tag(rk == 0 ? "rank0" : rk == mn ? "rankfull" : "rankdef");
  if (c->niret && c->iret[0] != rk) opcase_fail(c, "wrong-rank", "returned %ld, model rank %d", c->iret[0], rk);
  if (c->ip[0]) {
    opcase_expect(c, c->o[0]->M, R, "rref");
  } else {
    rm_t *G = opnd_value(c->o[0]);
    int nz = rm_is_ref(G);
    if (nz < 0)
      opcase_fail(c, "not-echelon", "result is not a row echelon form");
    else if (nz != rk)
      opcase_fail(c, "wrong-result", "row echelon form has %d non-zero rows, model rank %d", nz, rk);
    else {
      rm_t *RG = rm_rref(G, NULL, NULL);
      if (!rm_eq(RG, R)) opcase_fail(c, "wrong-result", "row echelon form spans a different row space");
      rm_free(RG);
    }
    rm_free(G);
  }
  rm_free(R);
  free(piv);
}

/* ------------------------------------------------------------------ PLE / PLUQ (C03) */
enum { P_PLE, P_PLUQ, P__PLE, P__PLUQ, P_PLE_NAIVE, P_PLUQ_NAIVE, P_PLE_RUSSIAN, P_PLUQ_RUSSIAN };
static int is_pluq(int v) { return v == P_PLUQ || v == P__PLUQ || v == P_PLUQ_NAIVE || v == P_PLUQ_RUSSIAN; }

static void gen_ple(opcase_t *c, rng_t *r, int maxdim) {
  int v = c->op->variant;
  int m, n;
  int md = maxdim;
  if (v == P_PLE_NAIVE || v == P_PLUQ_NAIVE) md = maxdim < 300 ? maxdim : 300;
  /* shapes straddling the base-case / recursion boundary of this build */
  if ((v == P_PLE || v == P_PLUQ || v == P__PLE || v == P__PLUQ) && rng_chance(r, 1, GEN_AIM_BOOST ? 2 : 3) && aim_recursive_shape(r, md, &m, &n)) {
  } else {
    m = gen_dim(r, md);
    n = gen_dim(r, md);
    int t = rng_int(r, 0, 11);
    if (t == 0) n = 1;
    if (t == 1) m = 1;
    /* the base case works on a strip of at least 8 words beyond the current column and updates the columns to the right of it
     * (A10 / A11 / process_rows beyond `splitblock`) separately: that code only does anything for matrices wider than 512 + 7k
     * columns, whatever the size bound of the stage, so a share of the cases is wide and short */
    if ((t == 2 || t == 3) && maxdim >= 200 && v != P_PLE_NAIVE && v != P_PLUQ_NAIVE) {
      n = 513 + rng_int(r, 0, 500);
      m = rng_int(r, 2, 150);
    }
    /* tall and thin: a block of 64 (65..128) columns with so many rows that width * nrows exceeds the PLE cutoff of the smallest
     * cache triple - the `ncols <= 64` half of the base-case switch is then the only thing that stops the column recursion */
    if (t == 4 && maxdim >= 200 && rng_chance(r, 1, 6) && (v == P_PLE || v == P_PLUQ || v == P__PLE || v == P__PLUQ)) {
      static const int TN[] = {64, 64, 65, 100, 127, 128};
      n = TN[rng_int(r, 0, 5)];
      m = GC.ple_cutoff + 1 + rng_int(r, 0, 300);
      if (m > 9000) m = 8193 + rng_int(r, 0, 300); /* generator constants of a large triple: stay affordable, the small triple still recurses */
      hx_tag("ple_tall_thin");
    }
  }
  char d[96];
  int kind;
  c->in[0] = gen_elim_input(r, m, n, d, sizeof d, NULL, &kind);
  if (n > 512 + 56) hx_tag("ple_beyond_splitblock");
  static const int RK[] = {0, 0, 2, 3, 4, 5, 6, 7, 8};
  c->ip[0] = CUTOFFS[rng_int(r, 0, NCUT - 1)];
  c->ip[1] = RK[rng_int(r, 0, 8)];
  c->ip[2] = (long)rng_u64(r); /* junk seed for P,Q */
  int rec = (n > 64 && (long)((n + 63) / 64) * m > (long)__M4RI_PLE_CUTOFF);
  int recursive_capable = (v == P_PLE || v == P_PLUQ || v == P__PLE || v == P__PLUQ);
  snprintf(c->pcls, sizeof c->pcls, "%s", (recursive_capable && rec) ? "recursive" : "base");
  snprintf(c->desc, sizeof c->desc, "m=%d n=%d %s cutoff=%ld k=%ld", m, n, d, c->ip[0], c->ip[1]);
  hx_cls("%s:%s:k%ld:%c%c%c%c:%d", c->op->name, c->pcls, (v == P_PLE_RUSSIAN || v == P_PLUQ_RUSSIAN) ? c->ip[1] : 0, dimcls(m), modcls(m), dimcls(n), modcls(n),
         kind);
  if (recursive_capable && rec) hx_tag("ple_recursive");
}
static void run_ple(opcase_t *c) {
  mzd_t *A = c->o[0]->M;
  int v = c->op->variant;
  c->P = mzp_init(A->nrows);
  c->Q = mzp_init(A->ncols);
  /* junk contents on entry (random ints, negative and out of range) */
  rng_t jr;
  rng_seed(&jr, (uint64_t)c->ip[2], 17, 4);
  if (c->ip[2] & 1) {
    for (int i = 0; i < A->nrows; i++) c->P->values[i] = (int)(rng_u64(&jr) % 100000) - 50000;
    for (int i = 0; i < A->ncols; i++) c->Q->values[i] = (int)(rng_u64(&jr) % 100000) - 50000;
  }
  int cutoff = (int)c->ip[0], k = (int)c->ip[1];
  c->niret = 1;
  switch (v) {
  case P_PLE: c->iret[0] = mzd_ple(A, c->P, c->Q, cutoff); break;
  case P_PLUQ: c->iret[0] = mzd_pluq(A, c->P, c->Q, cutoff); break;
  case P__PLE: c->iret[0] = _mzd_ple(A, c->P, c->Q, cutoff); break;
  case P__PLUQ: c->iret[0] = _mzd_pluq(A, c->P, c->Q, cutoff); break;
  case P_PLE_NAIVE: c->iret[0] = _mzd_ple_naive(A, c->P, c->Q); break;
  case P_PLUQ_NAIVE: c->iret[0] = _mzd_pluq_naive(A, c->P, c->Q); break;
  case P_PLE_RUSSIAN: c->iret[0] = _mzd_ple_russian(A, c->P, c->Q, k); break;
  case P_PLUQ_RUSSIAN: c->iret[0] = _mzd_pluq_russian(A, c->P, c->Q, k); break;
  }
}
/* shared: check factorisation stored in S (value after), perms, rank against original A0. returns 1 ok */
int verif_check_factorisation(opcase_t *c, const rm_t *A0, const rm_t *S, const int *Pv, const int *Qv, long rret, int pluq) {
  int m = A0->m, n = A0->n, mn = m < n ? m : n, ok = 1;
  int *piv = malloc(sizeof(int) * (mn + 1)), rk;
  rm_t *R = rm_rref(A0, piv, &rk);
  rm_free(R);
  int gapped = 0;
  for (int i = 0; i < rk; i++)
    if (piv[i] != i) gapped = 1;
  c->nontrivial = (rk > 0 && rk < mn) || gapped;
  if (rret != rk) {
    opcase_fail(c, "wrong-rank", "returned %ld, model rank %d", rret, rk);
    free(piv);
    return 0;
  }
  int r = rk;
  for (int i = 0; i < m && ok; i++)
    if (Pv[i] < i || Pv[i] >= m) {
      opcase_fail(c, "bad-permutation", "P[%d]=%d not in [%d,%d)", i, Pv[i], i, m);
      ok = 0;
    }
  for (int i = 0; i < n && ok; i++)
    if (Qv[i] < i || Qv[i] >= n) {
      opcase_fail(c, "bad-permutation", "Q[%d]=%d not in [%d,%d)", i, Qv[i], i, n);
      ok = 0;
    }
  if (!ok) {
    free(piv);
    return 0;
  }
  for (int i = 0; i < r; i++)
    if (Qv[i] != piv[i]) {
      opcase_fail(c, "wrong-profile", "Q[%d]=%d but column rank profile has %d", i, Qv[i], piv[i]);
      ok = 0;
      break;
    }
  /* storage outside L and U regions zero */
  long junk = 0;
  for (int i = r; i < m; i++)
    for (int j = r; j < n; j++) junk += RM(S, i, j);
  if (junk) {
    opcase_fail(c, "storage-not-zero", "%ld non-zero entries outside the L and U regions (rows>=%d, cols>=%d)", junk, r, r);
    ok = 0;
  }
  /* L: m x r, strict lower part of first r columns + unit diagonal */
  rm_t *L = rm_new(m, r);
  for (int i = 0; i < m; i++)
    for (int j = 0; j < r; j++) RM(L, i, j) = (i == j) ? 1 : (j < i ? RM(S, i, j) : 0);
  rm_t *U = rm_new(r, n);
  if (pluq) {
    for (int i = 0; i < r; i++)
      for (int j = 0; j < n; j++) RM(U, i, j) = (i == j) ? 1 : (j > i ? RM(S, i, j) : 0);
  } else {
    for (int i = 0; i < r; i++) {
      for (int j = i + 1; j < n; j++) RM(U, i, j) = RM(S, i, j);
      RM(U, i, Qv[i]) = 1;
    }
  }
  rm_t *LU = rm_mul(L, U);
  rm_t *PA = rm_copy(A0);
  if (pluq) rm_apply_p_cols_asc(PA, Qv, n);
  rm_apply_p_rows_asc(PA, Pv, m);
  if (!rm_eq(LU, PA)) {
    opcase_fail(c, "wrong-result", "%s does not reconstruct A: %ld entries differ", pluq ? "P*L*U*Q" : "P*L*E", rm_count_diff(LU, PA));
    ok = 0;
  }
  rm_free(L);
  rm_free(U);
  rm_free(LU);
  rm_free(PA);
  free(piv);
  return ok;
}
static void check_ple(opcase_t *c) {
  rm_t *S = opnd_value(c->o[0]);
  verif_check_factorisation(c, INV(c, 0), S, c->P->values, c->Q->values, c->iret[0], is_pluq(c->op->variant));
  rm_free(S);
}
static uint64_t canon_ple(opcase_t *c) {
  /* rank and column rank profile are unique; the factors are not */
  uint64_t h = 99 + (uint64_t)c->iret[0] * 1000003ULL;
  for (int i = 0; i < c->iret[0] && i < c->Q->length; i++) h = (h ^ (uint64_t)c->Q->values[i]) * 1099511628211ULL;
  return h;
}

/* ------------------------------------------------------------------ TRSM (C04), TRTRI (C05) */
enum { T_UL, T_LL, T_UR, T_LR, T__UL, T__LL, T__UR, T__LR, T_TRTRI, T_TRTRI_RUSSIAN };
static void gen_trsm(opcase_t *c, rng_t *r, int maxdim) {
  int v = c->op->variant;
  int sp[] = {GC.mul_block - 1, GC.mul_block, GC.mul_block + 1, 2 * GC.mul_block + 3, 64, 65, 128, 129, 63, 127};
  int n = gen_dim_sp(r, sp, 10, maxdim);
  if (v == T_TRTRI || v == T_TRTRI_RUSSIAN) {
    /* recursion threshold of trtri: n*n >= 2*L3 */
    int thr = 1;
    while ((long)thr * thr < 2L * GC.l3) thr++;
    int thr_here = 1;
    while ((long)thr_here * thr_here < 2L * __M4RI_CPU_L3_CACHE) thr_here++;
    int sp2[] = {thr - 1, thr, thr + 1, thr + 63, thr + 64, thr + 130, 64, 65, 128, 256, 257};
    n = gen_dim_sp(r, sp2, 11, maxdim);
    int sparse = rng_chance(r, 1, 4);
    rm_t *J = gen_tri_junk(r, n, 0, sparse);
    c->in[0] = rm_unit_tri(J, 0); /* a genuine unit upper triangular matrix */
    rm_free(J);
    c->ip[0] = rng_int(r, 0, 12); /* explicit table parameter of the Four-Russians variant */
    snprintf(c->pcls, sizeof c->pcls, "%s", v == T_TRTRI_RUSSIAN ? "russian" : n >= thr_here ? "recursive" : "base");
    snprintf(c->desc, sizeof c->desc, "n=%d sparse=%d k=%ld", n, sparse, v == T_TRTRI_RUSSIAN ? c->ip[0] : 0L);
    hx_cls("%s:%s:%c%c:%d", c->op->name, c->pcls, dimcls(n), modcls(n), sparse);
    if (n >= thr_here) hx_tag("trtri_recursive");
    c->nontrivial = n > 1;
    return;
  }
  int lower = (v == T_LL || v == T_LR || v == T__LL || v == T__LR);
  int left = (v == T_UL || v == T_LL || v == T__UL || v == T__LL);
  int w;
  int t = rng_int(r, 0, 9);
  if (t < 4)
    w = rng_int(r, 1, 3 * 64 + 5);
  else
    w = gen_dim(r, maxdim);
  int sparse = rng_chance(r, 1, 4);
  c->in[0] = gen_tri_junk(r, n, lower, sparse);
  int pb = gen_pat(r);
  c->in[1] = left ? gen_mat(r, n, w, pb) : gen_mat(r, w, n, pb);
  c->ip[0] = CUTOFFS[rng_int(r, 0, NCUT - 1)];
  const char *reg = n <= 64 ? "base" : n <= __M4RI_MUL_BLOCKSIZE ? "russian" : "recursive";
  snprintf(c->pcls, sizeof c->pcls, "%s", reg);
  snprintf(c->desc, sizeof c->desc, "n=%d w=%d B=%s sparse=%d cutoff=%ld", n, w, pat_name(pb), sparse, c->ip[0]);
  hx_cls("%s:%s:%c%c%c%c:%s:%d", c->op->name, reg, dimcls(n), modcls(n), dimcls(w), modcls(w), pat_name(pb), sparse);
  hx_tag("trsm_%s", reg);
  c->nontrivial = n > 1 && pb != PAT_ZERO;
}
static void run_trsm(opcase_t *c) {
  int cutoff = (int)c->ip[0];
  mzd_t *T = c->o[0]->M;
  switch (c->op->variant) {
  case T_UL: mzd_trsm_upper_left(T, c->o[1]->M, cutoff); break;
  case T_LL: mzd_trsm_lower_left(T, c->o[1]->M, cutoff); break;
  case T_UR: mzd_trsm_upper_right(T, c->o[1]->M, cutoff); break;
  case T_LR: mzd_trsm_lower_right(T, c->o[1]->M, cutoff); break;
  case T__UL: _mzd_trsm_upper_left(T, c->o[1]->M, cutoff); break;
  case T__LL: _mzd_trsm_lower_left(T, c->o[1]->M, cutoff); break;
  case T__UR: _mzd_trsm_upper_right(T, c->o[1]->M, cutoff); break;
  case T__LR: _mzd_trsm_lower_right(T, c->o[1]->M, cutoff); break;
  case T_TRTRI: c->ret = mzd_trtri_upper(T); break;
  case T_TRTRI_RUSSIAN: c->ret = mzd_trtri_upper_russian(T, (int)c->ip[0]); break;
  }
}
static void check_trsm(opcase_t *c) {
  int v = c->op->variant;
  if (v == T_TRTRI || v == T_TRTRI_RUSSIAN) {
    const rm_t *U0 = INV(c, 0);
    rm_t *X = opnd_value(c->o[0]);
    int n = U0->n, bad = 0;
    for (int i = 0; i < n && !bad; i++)
      for (int j = 0; j <= i; j++)
        if (RM(X, i, j) != (i == j)) {
          bad = 1;
          break;
        }
    if (bad) opcase_fail(c, "wrong-result", "inverse is not unit upper triangular");
    rm_t *Pm = rm_mul(U0, X), *I = rm_identity(n);
    if (!rm_eq(Pm, I)) opcase_fail(c, "wrong-result", "U * result != I (%ld entries differ)", rm_count_diff(Pm, I));
    if (c->ret != c->o[0]->M) opcase_fail(c, "wrong-return", "returned pointer is not the argument");
    rm_free(Pm);
    rm_free(I);
    rm_free(X);
    return;
  }
  int lower = (v == T_LL || v == T_LR || v == T__LL || v == T__LR);
  int left = (v == T_UL || v == T_LL || v == T__UL || v == T__LL);
  rm_t *That = rm_unit_tri(INV(c, 0), lower);
  rm_t *X = opnd_value(c->o[1]);
  rm_t *Pm = left ? rm_mul(That, X) : rm_mul(X, That);
  if (!rm_eq(Pm, INV(c, 1))) opcase_fail(c, "wrong-result", "%s != B: %ld entries differ", left ? "T*X" : "X*T", rm_count_diff(Pm, INV(c, 1)));
  rm_t *I = rm_identity(That->n);
  if (rm_eq(That, I)) c->nontrivial = 0;
  rm_free(I);
  rm_free(That);
  rm_free(X);
  rm_free(Pm);
}

/* ------------------------------------------------------------------ inversion (C05) */
enum { I_M4RI, I_NAIVE };
static void gen_inv(opcase_t *c, rng_t *r, int maxdim) {
  int v = c->op->variant;
  int md = (v == I_NAIVE && maxdim > 400) ? 400 : maxdim;
  int n = gen_dim(r, md);
  c->in[1] = gen_invertible(r, n);
  if (v == I_NAIVE) c->in[2] = rm_identity(n);
  if (rng_chance(r, 1, 2)) c->in[0] = gen_mat(r, n, n, PAT_DENSE);
  c->overwr[0] = 1;
  c->ip[0] = rng_int(r, 0, 16); /* every table parameter up to the documented maximum __M4RI_MAXKAY */
  snprintf(c->pcls, sizeof c->pcls, "-");
  snprintf(c->desc, sizeof c->desc, "n=%d k=%ld dst=%s", n, c->ip[0], c->in[0] ? "given" : "NULL");
  hx_cls("%s:k%ld:%c%c:%s", c->op->name, v == I_M4RI ? c->ip[0] : 0, dimcls(n), modcls(n), c->in[0] ? "C" : "N");
  c->nontrivial = n > 1;
}
static void run_inv(opcase_t *c) {
  mzd_t *D = c->o[0] ? c->o[0]->M : NULL;
  if (c->op->variant == I_M4RI)
    c->ret = mzd_inv_m4ri(D, c->o[1]->M, (int)c->ip[0]);
  else
    c->ret = mzd_invert_naive(D, c->o[1]->M, c->o[2]->M);
}
static void check_inv(opcase_t *c) {
  const rm_t *A = INV(c, 1);
  if (!c->ret) {
    opcase_fail(c, "wrong-result", "NULL returned for an invertible matrix");
    return;
  }
  if (c->o[0] && c->ret != c->o[0]->M) opcase_fail(c, "wrong-return", "returned pointer is not the supplied destination");
  if (c->ret->nrows != A->n || c->ret->ncols != A->n) {
    opcase_fail(c, "wrong-result", "inverse has dimensions %dx%d", c->ret->nrows, c->ret->ncols);
    return;
  }
  rm_t *B = rm_from_mzd(c->ret), *I = rm_identity(A->n);
  rm_t *AB = rm_mul(A, B), *BA = rm_mul(B, A);
  if (!rm_eq(AB, I)) opcase_fail(c, "wrong-result", "A*B != I (%ld entries differ)", rm_count_diff(AB, I));
  else if (!rm_eq(BA, I)) opcase_fail(c, "wrong-result", "B*A != I");
  rm_free(B);
  rm_free(I);
  rm_free(AB);
  rm_free(BA);
}

/* ------------------------------------------------------------------ solving (C06) */
enum { S_SOLVE, S_PLUQ_SOLVE };
/* left kernel vector of A (y with y^T A = 0), or NULL */
static uint8_t *left_kernel_vec(const rm_t *A, rng_t *r) {
  /* rref of [A | I_m]: rows whose A part is zero give left kernel vectors */
  rm_t *I = rm_identity(A->m);
  rm_t *AI = rm_concat(A, I);
  int rk;
  int *piv = malloc(sizeof(int) * (AI->m + 1));
  rm_t *E = rm_rref(AI, piv, &rk);
  uint8_t *y = NULL;
  int cand[64], nc = 0;
  for (int i = 0; i < rk; i++)
    if (piv[i] >= A->n && nc < 64) cand[nc++] = i;
  if (nc) {
    int row = cand[rng_int(r, 0, nc - 1)];
    y = malloc(A->m);
    for (int j = 0; j < A->m; j++) y[j] = RM(E, row, A->n + j);
  }
  rm_free(I);
  rm_free(AI);
  rm_free(E);
  free(piv);
  return y;
}
static void gen_solve(opcase_t *c, rng_t *r, int maxdim) {
  int m = gen_dim(r, maxdim), n = gen_dim(r, maxdim);
  int t = rng_int(r, 0, 5);
  if (t == 0) n = m;
  if (t == 1 && m > 1) n = m + rng_int(r, 1, 3); /* m < n with few padding rows */
  if (rng_chance(r, 1, GEN_AIM_BOOST ? 2 : 8)) aim_recursive_shape(r, maxdim, &m, &n);
  int w = rng_chance(r, 1, 2) ? rng_int(r, 1, 200) : gen_dim(r, maxdim);
  char d[96];
  int kind;
  rm_t *A = gen_elim_input(r, m, n, d, sizeof d, NULL, &kind);
  int mx = m > n ? m : n;
  rm_t *X0 = gen_mat(r, n, w, rng_chance(r, 1, 6) ? gen_pat(r) : PAT_DENSE);
  rm_t *AX = rm_mul(A, X0);
  rm_t *B = rm_new(mx, w);
  for (int i = 0; i < m; i++) memcpy(B->e + (size_t)i * w, AX->e + (size_t)i * w, w);
  const char *where = "consistent";
  int mode = rng_int(r, 0, 9);
  /* without the inconsistency check the result is only defined for consistent systems: use those */
  int icheck = !rng_chance(r, 1, 4);
  if (!icheck) mode = 9;
  if (mode < 3) {
    /* inconsistent: add a vector outside the column space to one column of B */
    uint8_t *y = left_kernel_vec(A, r);
    if (y) {
      /* choose v with y.v = 1: unit vector at a position where y is 1 */
      int pos[4096], np = 0;
      for (int i = 0; i < m && np < 4096; i++)
        if (y[i]) pos[np++] = i;
      int i = pos[rng_int(r, 0, np - 1)], col = rng_int(r, 0, w - 1);
      RM(B, i, col) ^= 1;
      where = "outside-colspace";
      free(y);
    }
  } else if (mode < 6 && mx > m) {
    /* inconsistency only in one padding row */
    int t2 = rng_int(r, 0, 2);
    int row = t2 == 0 ? m : t2 == 1 ? (m + 1 < mx ? m + 1 : m) : mx - 1;
    RM(B, row, rng_int(r, 0, w - 1)) = 1;
    where = row == m ? "padrow-first" : row == mx - 1 ? "padrow-last" : "padrow-second";
  }
  rm_free(X0);
  rm_free(AX);
  c->in[0] = A;
  c->in[1] = B;
  c->ip[0] = CUTOFFS[rng_int(r, 0, NCUT - 1)];
  c->ip[1] = icheck;
  if (!icheck) where = "consistent-nocheck";
  snprintf(c->pcls, sizeof c->pcls, "%s", where);
  snprintf(c->desc, sizeof c->desc, "m=%d n=%d w=%d %s rhs=%s cutoff=%ld check=%d", m, n, w, d, where, c->ip[0], icheck);
  hx_cls("%s:%s:%s:%c%c%c:%d", c->op->name, where, m < n ? "m<n" : m == n ? "m=n" : "m>n", dimcls(m), dimcls(n), dimcls(w), kind);
  hx_tag("rhs_%s", where);
}
static void run_solve(opcase_t *c) {
  mzd_t *A = c->o[0]->M, *B = c->o[1]->M;
  c->niret = 1;
  if (c->op->variant == S_SOLVE) {
    c->iret[0] = mzd_solve_left(A, B, (int)c->ip[0], (int)c->ip[1]);
  } else {
    /* factorise a private copy first; the factorisation itself is checked by C03 */
    mzd_t *F = mzd_copy(NULL, A);
    c->P = mzp_init(F->nrows);
    c->Q = mzp_init(F->ncols);
    rci_t rk = mzd_pluq(F, c->P, c->Q, (int)c->ip[0]);
    c->iret[1] = rk;
    opnd_t *fo = opnd_wrap(F);
    opnd_snapshot(fo);
    c->iret[0] = mzd_pluq_solve_left(F, rk, c->P, c->Q, B, (int)c->ip[0], (int)c->ip[1]);
    if (opnd_total_diff(fo)) opcase_fail(c, "operand-modified", "factor matrix changed by mzd_pluq_solve_left");
    opnd_free(fo);
  }
}
static void check_solve(opcase_t *c) {
  const rm_t *A = INV(c, 0), *B0 = INV(c, 1);
  int m = A->m, n = A->n, mx = B0->m, w = B0->n;
  /* A padded with zero rows */
  rm_t *Ah = rm_new(mx, n);
  memcpy(Ah->e, A->e, (size_t)m * n);
  rm_t *AB = rm_concat(Ah, B0);
  int ra = rm_rank(Ah), rab = rm_rank(AB);
  int solvable = (ra == rab);
  c->nontrivial = (ra < (m < n ? m : n)) || !solvable;
  hx_tag(solvable ? "verdict_solvable" : "verdict_inconsistent");
  long ret = c->iret[0];
  if (ret != (solvable ? 0 : -1))
    opcase_fail(c, "wrong-verdict", "returned %ld but the system (A padded to %d rows) is %s", ret, mx, solvable ? "solvable" : "inconsistent");
  else if (solvable) {
    rm_t *Xf = opnd_value(c->o[1]);
    rm_t *X = rm_sub(Xf, 0, 0, n, w);
    rm_t *AX = rm_mul(A, X);
    rm_t *Bt = rm_sub(B0, 0, 0, m, w);
    if (!rm_eq(AX, Bt)) opcase_fail(c, "wrong-result", "A*X != B: %ld entries differ", rm_count_diff(AX, Bt));
    rm_free(Xf);
    rm_free(X);
    rm_free(AX);
    rm_free(Bt);
  }
  rm_free(Ah);
  rm_free(AB);
}
static uint64_t canon_solve(opcase_t *c) { return 1000 + (uint64_t)(c->iret[0] + 5); }

/* ------------------------------------------------------------------ kernel (C07) */
static void gen_kernel(opcase_t *c, rng_t *r, int maxdim) {
  int m = gen_dim(r, maxdim), n = gen_dim(r, maxdim);
  if (rng_chance(r, 1, GEN_AIM_BOOST ? 2 : 5)) aim_recursive_shape(r, maxdim, &m, &n); /* the kernel is read off a PLUQ factorisation */
  char d[96];
  int kind;
  c->in[0] = gen_elim_input(r, m, n, d, sizeof d, NULL, &kind);
  c->ip[0] = CUTOFFS[rng_int(r, 0, NCUT - 1)];
  snprintf(c->pcls, sizeof c->pcls, "-");
  snprintf(c->desc, sizeof c->desc, "m=%d n=%d %s cutoff=%ld", m, n, d, c->ip[0]);
  hx_cls("%s:%c%c%c%c:%d", c->op->name, dimcls(m), modcls(m), dimcls(n), modcls(n), kind);
}
static void run_kernel(opcase_t *c) { c->ret = mzd_kernel_left_pluq(c->o[0]->M, (int)c->ip[0]); }
static void check_kernel(opcase_t *c) {
  const rm_t *A = INV(c, 0);
  int r = rm_rank(A), n = A->n;
  c->nontrivial = r > 0 && r < n;
  hx_tag(r == n ? "kernel_trivial" : r == 0 ? "kernel_all" : "kernel_proper");
  if (r == n) {
    if (c->ret) opcase_fail(c, "wrong-result", "non-NULL kernel for full column rank");
    return;
  }
  if (!c->ret) {
    opcase_fail(c, "wrong-result", "NULL returned but rank %d < %d columns", r, n);
    return;
  }
  if (c->ret->nrows != n || c->ret->ncols != n - r) {
    opcase_fail(c, "wrong-result", "kernel has dimensions %dx%d, expected %dx%d", c->ret->nrows, c->ret->ncols, n, n - r);
    return;
  }
  rm_t *K = rm_from_mzd(c->ret);
  rm_t *AK = rm_mul(A, K);
  if (!rm_is_zero(AK)) opcase_fail(c, "wrong-result", "A*K != 0 (%ld non-zero entries)", rm_weight(AK));
  int rkK = rm_rank(K);
  if (rkK != n - r) opcase_fail(c, "wrong-result", "columns of K dependent: rank %d, expected %d", rkK, n - r);
  rm_free(K);
  rm_free(AK);
}
static uint64_t canon_kernel(opcase_t *c) { return 2000 + (c->ret ? (uint64_t)c->ret->ncols + 1 : 0); }

#define OP1(nm, fam, r0, r1, r2, fl, var, g, ru, ch, cn)                                                                                            \
  { nm, fam, {r0, r1, r2, R_NONE}, fl, var, g, ru, ch, cn }
const op_t OPS_ELIM[] = {
    OP1("mzd_echelonize_naive", "ech", R_RW, 0, 0, 0, E_NAIVE, gen_ech, run_ech, check_ech, NULL),
    OP1("mzd_gauss_delayed", "ech", R_RW, 0, 0, 0, E_GAUSS, gen_ech, run_ech, check_ech, NULL),
    OP1("mzd_echelonize_m4ri", "ech", R_RW, 0, 0, 0, E_M4RI, gen_ech, run_ech, check_ech, NULL),
    OP1("_mzd_echelonize_m4ri", "ech", R_RW, 0, 0, 0, E__M4RI, gen_ech, run_ech, check_ech, NULL),
    OP1("mzd_echelonize", "ech", R_RW, 0, 0, 0, E_HYBRID, gen_ech, run_ech, check_ech, NULL),
    OP1("mzd_echelonize_pluq", "ech", R_RW, 0, 0, 0, E_PLUQ, gen_ech, run_ech, check_ech, NULL),
    OP1("mzd_top_echelonize_m4ri", "ech", R_RW, 0, 0, 0, E_TOP, gen_ech, run_ech, check_ech, NULL),
    OP1("mzd_ple", "ple", R_RW, 0, 0, OPF_NONUNIQUE, P_PLE, gen_ple, run_ple, check_ple, canon_ple),
    OP1("mzd_pluq", "ple", R_RW, 0, 0, OPF_NONUNIQUE, P_PLUQ, gen_ple, run_ple, check_ple, canon_ple),
    OP1("_mzd_ple", "ple", R_RW, 0, 0, OPF_NONUNIQUE, P__PLE, gen_ple, run_ple, check_ple, canon_ple),
    OP1("_mzd_pluq", "ple", R_RW, 0, 0, OPF_NONUNIQUE, P__PLUQ, gen_ple, run_ple, check_ple, canon_ple),
    OP1("_mzd_ple_naive", "ple", R_RW, 0, 0, OPF_NONUNIQUE, P_PLE_NAIVE, gen_ple, run_ple, check_ple, canon_ple),
    OP1("_mzd_pluq_naive", "ple", R_RW, 0, 0, OPF_NONUNIQUE, P_PLUQ_NAIVE, gen_ple, run_ple, check_ple, canon_ple),
    OP1("_mzd_ple_russian", "ple", R_RW, 0, 0, OPF_NONUNIQUE | OPF_NOWIN, P_PLE_RUSSIAN, gen_ple, run_ple, check_ple, canon_ple),
    OP1("_mzd_pluq_russian", "ple", R_RW, 0, 0, OPF_NONUNIQUE | OPF_NOWIN, P_PLUQ_RUSSIAN, gen_ple, run_ple, check_ple, canon_ple),
    OP1("mzd_trsm_upper_left", "trsm", R_RO, R_RW, 0, 0, T_UL, gen_trsm, run_trsm, check_trsm, NULL),
    OP1("mzd_trsm_lower_left", "trsm", R_RO, R_RW, 0, 0, T_LL, gen_trsm, run_trsm, check_trsm, NULL),
    OP1("mzd_trsm_upper_right", "trsm", R_RO, R_RW, 0, 0, T_UR, gen_trsm, run_trsm, check_trsm, NULL),
    OP1("mzd_trsm_lower_right", "trsm", R_RO, R_RW, 0, 0, T_LR, gen_trsm, run_trsm, check_trsm, NULL),
    OP1("_mzd_trsm_upper_left", "trsm", R_RO, R_RW, 0, 0, T__UL, gen_trsm, run_trsm, check_trsm, NULL),
    OP1("_mzd_trsm_lower_left", "trsm", R_RO, R_RW, 0, 0, T__LL, gen_trsm, run_trsm, check_trsm, NULL),
    OP1("_mzd_trsm_upper_right", "trsm", R_RO, R_RW, 0, 0, T__UR, gen_trsm, run_trsm, check_trsm, NULL),
    OP1("_mzd_trsm_lower_right", "trsm", R_RO, R_RW, 0, 0, T__LR, gen_trsm, run_trsm, check_trsm, NULL),
    OP1("mzd_trtri_upper", "inv", R_RW, 0, 0, 0, T_TRTRI, gen_trsm, run_trsm, check_trsm, NULL),
    OP1("mzd_trtri_upper_russian", "inv", R_RW, 0, 0, 0, T_TRTRI_RUSSIAN, gen_trsm, run_trsm, check_trsm, NULL),
    OP1("mzd_inv_m4ri", "inv", R_RW, R_RO, 0, 0, I_M4RI, gen_inv, run_inv, check_inv, NULL),
    OP1("mzd_invert_naive", "inv", R_RW, R_RO, R_RO, 0, I_NAIVE, gen_inv, run_inv, check_inv, NULL),
    OP1("mzd_solve_left", "solve", R_RW, R_RW, 0, OPF_NONUNIQUE, S_SOLVE, gen_solve, run_solve, check_solve, canon_solve),
    OP1("mzd_pluq_solve_left", "solve", R_RO, R_RW, 0, OPF_NONUNIQUE, S_PLUQ_SOLVE, gen_solve, run_solve, check_solve, canon_solve),
    OP1("mzd_kernel_left_pluq", "kernel", R_RW, 0, 0, OPF_NONUNIQUE, 0, gen_kernel, run_kernel, check_kernel, canon_kernel),
};
const int NOPS_ELIM = sizeof OPS_ELIM / sizeof OPS_ELIM[0];
