#!/bin/sh
# maintenance: create a scratch git worktree of /repo with the (untracked) autotools build files so that `make && make check` works there
set -e
D="$1"
git -C /repo worktree add -q --detach "$D" HEAD
cd /repo
# copy untracked build infrastructure (not objects, not .git)
rsync -a --exclude='.git' --exclude='*.o' --exclude='*.lo' --exclude='.libs' --exclude='*.la' --exclude='tests/test_*[!c]' --exclude='*.log' --exclude='*.trs' --ignore-existing /repo/ "$D"/
cd "$D" && (make -j16 >/dev/null 2>&1 || true)
echo "worktree ready: $D"
