#!/usr/bin/env python3
"""maintenance: which library lines do the registered workloads execute?
Builds the gcc non-TSan configurations with gcov instrumentation (VERIF_COV=1), runs the checks of the given tier with evidence
redirected to build/cov-ev (the committed evidence is not touched), merges the line counts of all builds and prints, per
library source file, the lines never executed.  usage: coverage.py [quick|thorough] [C01 C02 ...]"""
import glob, gzip, json, os, subprocess, sys, shutil
ROOT = os.path.dirname(os.path.abspath(__file__))
tier = sys.argv[1] if len(sys.argv) > 1 else "quick"
props = sys.argv[2:] or ["C%02d" % i for i in range(1, 21)]
env = dict(os.environ, VERIF_COV="1", VERIF_EVIDENCE_DIR=os.path.join(ROOT, "build", "cov-ev"))
for d in glob.glob(os.path.join(ROOT, "build", "*_cov-*")):
    for f in glob.glob(d + "/*.gcda"):
        os.unlink(f)
for p in props:
    r = subprocess.run([sys.executable, os.path.join(ROOT, "verif.py"), "check", p, "--tier", tier], env=env, stdout=subprocess.PIPE, stderr=subprocess.STDOUT, text=True)
    print(r.stdout.strip().splitlines()[-1])
lines = {}   # (file, line) -> count ; only executable lines
branches = {}
funcs = {}
for d in glob.glob(os.path.join(ROOT, "build", "*_cov-*")):
    gc = glob.glob(d + "/lib_*.gcda")
    if not gc:
        continue
    out = os.path.join(d, "gcov-out")
    shutil.rmtree(out, ignore_errors=True)
    os.makedirs(out)
    for g in gc:
        subprocess.run(["gcov", "-j", "-b", "-o", d, g], cwd=out, stdout=subprocess.DEVNULL, stderr=subprocess.DEVNULL)
    for j in glob.glob(out + "/*.gcov.json.gz"):
        data = json.load(gzip.open(j))
        for f in data["files"]:
            name = os.path.basename(f["file"])
            if "/m4ri/" not in f["file"] and not f["file"].startswith("m4ri/"):
                continue
            for ln in f["lines"]:
                k = (name, ln["line_number"])
                lines[k] = lines.get(k, 0) + ln["count"]
                for bi, b in enumerate(ln.get("branches", [])):
                    if b.get("throw"):
                        continue
                    kb = (name, ln["line_number"], bi)
                    branches[kb] = branches.get(kb, 0) + b["count"]
            for fn in f["functions"]:
                k = (name, fn["name"], fn["start_line"])
                funcs[k] = funcs.get(k, 0) + fn["execution_count"]
    shutil.rmtree(out, ignore_errors=True)
byfile = {}
for (f, l), c in lines.items():
    byfile.setdefault(f, [0, 0, []])
    byfile[f][0] += 1
    if c:
        byfile[f][1] += 1
    else:
        byfile[f][2].append(l)
def ranges(ls):
    ls = sorted(ls); out = []; i = 0
    while i < len(ls):
        j = i
        while j + 1 < len(ls) and ls[j + 1] <= ls[j] + 1:
            j += 1
        out.append(str(ls[i]) if i == j else "%d-%d" % (ls[i], ls[j])); i = j + 1
    return " ".join(out)
tot = [0, 0]
det = open(os.path.join(ROOT, "build", "coverage-%s.txt" % tier), "w")
for f in sorted(byfile):
    n, h, miss = byfile[f]
    tot[0] += n; tot[1] += h
    print("%-28s %5d/%5d lines executed (%.1f%%)" % (f, h, n, 100.0 * h / max(1, n)))
    det.write("%-28s %5d/%5d lines executed (%.1f%%)  never: %s\n" % (f, h, n, 100.0 * h / max(1, n), ranges(miss)))
print("TOTAL %d/%d (%.1f%%)" % (tot[1], tot[0], 100.0 * tot[1] / max(1, tot[0])))
nf = sorted("%s:%s" % (k[0], k[1]) for k, c in funcs.items() if c == 0)
print("functions never entered: %d (listed in the details file)" % len(nf))
det.write("functions never entered: " + ", ".join(nf) + "\n")
nb = sorted((k[0], k[1]) for k, c in branches.items() if c == 0 and lines.get((k[0], k[1]), 0) > 0)
bl = {}
for f, l in nb:
    bl.setdefault(f, set()).add(l)
print("branch outcomes never taken on executed lines: %d of %d" % (len(nb), len(branches)))
for f in sorted(bl):
    det.write("%-28s executed lines with a branch outcome never taken: %s\n" % (f, ranges(bl[f])))
print("details:", det.name)
