#!/bin/bash
# maintenance: confirm a sub-agent's change in its worktree, store it under seeded/<name>, run the quick check(s) against it on a scratch copy
# usage: keep_seed.sh <worktree> <Sxx-Cyy-name> <prop> [<prop>...]
WT="$1"; NAME="$2"; shift 2
C=$(/verif/confirm_seed.sh "$WT" | tail -1); echo "$C"
D=/verif/seeded/$NAME; mkdir -p "$D"
(cd "$WT" && git diff -- m4ri) > "$D/patch.diff"
for f in demo.c demo.sh meta.txt; do [ -f "$WT/$f" ] && cp "$WT/$f" "$D/"; done
echo "$C" > "$D/confirm.txt"
for p in "$@"; do LINES_MAX=6 /verif/mutate.sh "$D/patch.diff" "$p"; done
