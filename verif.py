#!/usr/bin/env python3
"""Orchestrator for the m4ri runtime monitors: build, shard, watch, judge, evidence.

  verif.py setup                       prebuild the configurations the quick checks need
  verif.py check C01 [--tier quick|thorough]
  verif.py replay <replay.json>
  verif.py build <cfg>                 (maintenance)
Exit codes: 0 held on everything observed, 1 violation not listed as known, 2 harness failure / inconclusive.
python3 stdlib only."""
import hashlib, json, os, re, shutil, signal, subprocess, sys, threading, time, queue, glob

ROOT = os.path.dirname(os.path.abspath(__file__))
REPO = os.environ.get("VERIF_REPO", "/repo")
BUILD = os.path.join(ROOT, "build")
HARNESS = os.path.join(ROOT, "harness")
NCPU = min(16, os.cpu_count() or 4)
THOROUGH_SCALE = int(os.environ.get("VERIF_THOROUGH_SCALE", "2"))   # the thorough tier ran in 87 min at scale 1
REPLAYS = os.path.join(os.environ["VERIF_EVIDENCE_DIR"], "replays") if os.environ.get("VERIF_EVIDENCE_DIR") else os.path.join(ROOT, "replays")

sys.path.insert(0, ROOT)

# ----------------------------------------------------------------------------- build matrix
SMALL = (4096, 32768, 65536)
MID = (16384, 262144, 1048576)
HOST = (32768, 1310720, 56623104)
ODD = (6144, 49152, 98304)   # derived constants that are not powers of two: MUL_BLOCKSIZE 313, Strassen cutoff 627, PLE cutoff 12288

def C(l, sse2=1, caches=1, omp=0, ndebug=1, cc="gcc", san="asan", opt="-O1", vg=0):
    # configure.ac: --enable-thread-safe turns both caches off; OpenMP turns the header cache off
    return dict(l1=l[0], l2=l[1], l3=l[2], sse2=sse2, mmc=caches, mzdc=(0 if omp else caches), omp=omp, ndebug=ndebug, cc=cc, san=san, opt=opt, vg=vg)

CONFIGS = {
    "small-asan": C(SMALL),
    "small-nosse-ts-asan": C(SMALL, sse2=0, caches=0),
    "host-asan": C(HOST),
    "mid-debug-asan": C(MID, ndebug=0),
    "odd-asan": C(ODD),
    "host-clang-asan": C(HOST, cc="clang-14", opt="-O2"),            # second compiler: different UBSan checks, different code generation
    "small-O3-plain": C(SMALL, san="none", opt="-O3"),               # aggressive optimisation exploits UB the sanitizers may not flag
    "small-msan": C(SMALL, cc="clang-14", san="msan", opt="-O1"),     # uninitialised scalars / heap reads that ASan, UBSan and a zero-folding optimiser hide
    # block cache with 2 slots, header pool with 3 blocks (capacity hook): for bounded-exhaustive allocation histories (C14)
    "tiny-caches-asan": dict(C(SMALL), defs=["-DM4RI_VERIF_MMC_NBLOCKS=2", "-DM4RI_VERIF_MZD_T_CACHE_MAX=3"]),
    "small-plain": C(SMALL, san="none", opt="-O2"),
    "small-ts-plain-vg": C(SMALL, caches=0, san="none", opt="-O1", vg=1),
    "host-nosse-plain": C(HOST, sse2=0, caches=0, san="none", opt="-O2"),
    "small-ts-tsan": C(SMALL, caches=0, san="tsan", opt="-O1"),
    "host-ts-tsan": C(HOST, caches=0, san="tsan", opt="-O1"),
    "small-caches-tsan": C(SMALL, caches=1, san="tsan", opt="-O1"),   # calibration only: must show races
    "host-gomp-asan": C(HOST, omp=1),
    "small-gomp-asan": C(SMALL, omp=1),
    "host-gomp-plain": C(HOST, omp=1, san="none", opt="-O2"),
    "host-omp-archer": C(HOST, omp=1, cc="clang-14", san="tsan", opt="-O1"),
}

LIB_SKIP = {"m4ri_config.h", "config.h"}

def lib_sources():
    d = os.path.join(REPO, "m4ri")
    out = []
    for f in sorted(os.listdir(d)):
        if f in LIB_SKIP:
            continue
        if f.endswith(".c") or f.endswith(".h") or f == "m4ri_config.h.in":
            out.append(os.path.join(d, f))
    return out

def harness_sources():
    return sorted(glob.glob(os.path.join(HARNESS, "*.c")) + glob.glob(os.path.join(HARNESS, "*.h")))

def san_flags(cfg):
    s = cfg["san"]
    if s == "asan":
        return ["-fsanitize=address,undefined", "-fno-sanitize-recover=all", "-fno-omit-frame-pointer"]
    if s == "tsan":
        return ["-fsanitize=thread", "-fno-omit-frame-pointer"]
    if s == "msan":
        return ["-fsanitize=memory", "-fsanitize-memory-track-origins=2", "-fno-omit-frame-pointer", "-fno-sanitize-recover=all"]
    return []

# maintenance (coverage.py): VERIF_COV=1 compiles the library objects of the non-TSan builds with gcov instrumentation
COV = os.environ.get("VERIF_COV") == "1"

def config_header(cfg):
    tpl = open(os.path.join(REPO, "m4ri", "m4ri_config.h.in")).read()
    sub = {
        "M4RI_HAVE_MM_MALLOC": "1", "M4RI_HAVE_POSIX_MEMALIGN": "1", "M4RI_HAVE_SSE2": str(cfg["sse2"]),
        "M4RI_HAVE_OPENMP": str(cfg["omp"]), "M4RI_CPU_L1_CACHE": str(cfg["l1"]), "M4RI_CPU_L2_CACHE": str(cfg["l2"]),
        "M4RI_CPU_L3_CACHE": str(cfg["l3"]), "M4RI_DEBUG_DUMP": "0", "M4RI_DEBUG_MZD": "0", "M4RI_HAVE_LIBPNG": "1",
        "CC": cfg["cc"], "SIMD_FLAGS": "-msse2" if cfg["sse2"] else "", "OPENMP_CFLAGS": "-fopenmp" if cfg["omp"] else "",
        "CFLAGS": cfg["opt"], "M4RI_ENABLE_MZD_CACHE": str(cfg["mzdc"]), "M4RI_ENABLE_MMC": str(cfg["mmc"]),
    }
    def rep(m):
        k = m.group(1)
        if k not in sub:
            raise SystemExit("HARNESS-FAILURE: unknown substitution @%s@ in m4ri_config.h.in" % k)
        return sub[k]
    return re.sub(r"@([A-Za-z0-9_]+)@", rep, tpl)

def run(cmd, **kw):
    return subprocess.run(cmd, stdout=subprocess.PIPE, stderr=subprocess.STDOUT, text=True, **kw)

_build_lock = threading.Lock()
_built = {}

def build(name, verbose=False):
    """Build the `mon` engine for configuration `name` from /repo's working tree. Returns path of the binary."""
    with _build_lock:
        if name in _built:
            return _built[name]
        cfg = CONFIGS[name]
        cov = COV and cfg["san"] != "tsan" and cfg["cc"] == "gcc"
        if cov:
            cfg = dict(cfg, cov=1)
        h = hashlib.sha256()
        h.update(json.dumps(cfg, sort_keys=True).encode())
        for f in lib_sources() + harness_sources():
            h.update(f.encode())
            h.update(open(f, "rb").read())
        h.update(b"v7" if cfg["san"] != "msan" else b"v8")
        tag = "%s%s-%s" % (name, "_cov" if cov else "", h.hexdigest()[:14])
        d = os.path.join(BUILD, tag)
        exe = os.path.join(d, "mon")
        if os.path.exists(exe) and os.path.exists(os.path.join(d, "OK")):
            os.utime(d, None)
            _built[name] = exe
            return exe
        t0 = time.time()
        prune_builds(name)
        if os.path.isdir(d):
            shutil.rmtree(d)
        os.makedirs(os.path.join(d, "m4ri"))
        for f in lib_sources():
            if not f.endswith(".in"):
                shutil.copy(f, os.path.join(d, "m4ri"))
        open(os.path.join(d, "m4ri", "m4ri_config.h"), "w").write(config_header(cfg))
        cc = cfg["cc"]
        common = [cfg["opt"], "-g", "-std=gnu99", "-I", d, "-I", os.path.join(d, "m4ri"), "-DM4RI_VERIF", "-w"]
        if cfg["sse2"]:
            common.append("-msse2")
        if cfg["ndebug"]:
            common.append("-DNDEBUG")
        if cfg["omp"]:
            common.append("-fopenmp")
        common += cfg.get("defs", [])
        sflags = san_flags(cfg)
        jobs = []
        libobjs = []
        for f in sorted(os.listdir(os.path.join(d, "m4ri"))):
            if f.endswith(".c"):
                o = os.path.join(d, "lib_" + f[:-2] + ".o")
                libobjs.append(o)
                jobs.append([cc] + common + sflags + (["--coverage"] if cov else []) + ["-c", os.path.join(d, "m4ri", f), "-o", o])
        o = os.path.join(d, "libshim.o")
        libobjs.append(o)
        jobs.append([cc] + common + sflags + ["-c", os.path.join(HARNESS, "libshim.c"), "-o", o])
        wrap = cfg["san"] != "tsan"
        if wrap:
            o = os.path.join(d, "alloc_wrap.o")
            libobjs.append(o)
            jobs.append(["gcc", "-O2", "-g", "-w", "-c", os.path.join(HARNESS, "alloc_wrap.c"), "-o", o])
        hobjs = []
        for f in sorted(glob.glob(os.path.join(HARNESS, "*.c"))):
            b = os.path.basename(f)
            if b in ("libshim.c", "alloc_wrap.c"):
                continue
            if b == "alloc_stub.c" and wrap:
                continue
            o = os.path.join(d, "h_" + b[:-2] + ".o")
            hobjs.append(o)
            hflags = list(common)
            if cfg["vg"]:
                hflags.append("-DHAVE_VALGRIND")
            if b in ("ref.c", "gen.c"):
                hflags = ["-O3" if x == cfg["opt"] else x for x in hflags]
                # the model and the generators run uninstrumented for speed - except under MSan, which must see every store
                jobs.append(["gcc" if cc == "gcc" else cc] + hflags + (sflags if cfg["san"] == "msan" else []) + ["-c", f, "-o", o])
            else:
                jobs.append([cc] + hflags + sflags + ["-c", f, "-o", o])
        errs = []
        def worker(q):
            while True:
                try:
                    j = q.get_nowait()
                except queue.Empty:
                    return
                r = run(j)
                if r.returncode != 0:
                    errs.append(" ".join(j) + "\n" + r.stdout)
        q = queue.Queue()
        for j in jobs:
            q.put(j)
        ths = [threading.Thread(target=worker, args=(q,)) for _ in range(NCPU)]
        [t.start() for t in ths]
        [t.join() for t in ths]
        if errs:
            sys.stderr.write("HARNESS-FAILURE: compilation failed for %s\n%s\n" % (name, errs[0][-6000:]))
            raise SystemExit(2)
        libw = os.path.join(d, "libm4ri_w.o")
        if wrap:
            r = run(["ld", "-r"] + ["--wrap=" + s for s in ("malloc", "calloc", "realloc", "posix_memalign", "free", "abort")] + libobjs + ["-o", libw])
        else:
            r = run(["ld", "-r"] + libobjs + ["-o", libw])
        if r.returncode != 0:
            sys.stderr.write("HARNESS-FAILURE: ld -r failed\n" + r.stdout)
            raise SystemExit(2)
        link = [cc] + sflags + (["-fopenmp"] if cfg["omp"] else []) + (["--coverage"] if cov else []) + ["-rdynamic"] + hobjs + [libw, "-o", exe, "-lm", "-lpng", "-lz", "-lpthread", "-ldl"]
        r = run(link)
        if r.returncode != 0:
            sys.stderr.write("HARNESS-FAILURE: link failed for %s\n%s\n" % (name, r.stdout[-6000:]))
            raise SystemExit(2)
        for o in libobjs + hobjs:
            try:
                os.unlink(o)
            except OSError:
                pass
        open(os.path.join(d, "OK"), "w").write(time.ctime())
        if verbose:
            print("built %s in %.1fs" % (tag, time.time() - t0))
        _built[name] = exe
        return exe

def prune_builds(name, keep=3, min_age_s=3 * 3600):
    """keep at most `keep` old build dirs per configuration (disk is limited); never remove one that was used recently,
    another check may be running from it"""
    if not os.path.isdir(BUILD):
        return
    ds = [os.path.join(BUILD, x) for x in os.listdir(BUILD) if x.rsplit("-", 1)[0] == name]
    ds.sort(key=lambda p: os.path.getmtime(p), reverse=True)
    now = time.time()
    for p in ds[keep - 1:]:
        if now - os.path.getmtime(p) > min_age_s:
            shutil.rmtree(p, ignore_errors=True)

def build_many(names):
    # builds are internally parallel; run them one after another
    for n in names:
        build(n)

# ----------------------------------------------------------------------------- running monitors
SAN_ENV = {
    "ASAN_OPTIONS": "abort_on_error=1:detect_leaks=0:allocator_may_return_null=1:handle_abort=0:print_summary=1:detect_stack_use_after_return=0:max_malloc_fill_size=0",
    "UBSAN_OPTIONS": "print_stacktrace=1:halt_on_error=1:abort_on_error=1",
    "TSAN_OPTIONS": "halt_on_error=0:report_signal_unsafe=0:history_size=4",
    "MALLOC_PERTURB_": "0",
}

VALGRIND = ("valgrind", "-q", "--error-exitcode=0", "--undef-value-errors=yes", "--track-origins=no", "--leak-check=no", "--num-callers=12")

def classify_death(rc, err):
    """violation kind from exit status + stderr of a dead worker"""
    m = re.search(r"ERROR: AddressSanitizer: ([A-Za-z0-9_-]+)", err)
    if m:
        kind = m.group(1)
        fn = first_lib_frame(err)
        if kind == "SEGV":
            return "crash:SIGSEGV" + ("@" + fn if fn else "")
        return "asan:%s%s" % (kind, "@" + fn if fn else "")
    m = re.search(r"WARNING: MemorySanitizer: ([A-Za-z0-9_-]+)", err)
    if m:
        fn = first_lib_frame(err)
        return "msan:%s%s" % (m.group(1), "@" + fn if fn else "")
    m = re.search(r"([A-Za-z0-9_./-]+):\d+:\d+: runtime error: (.*)", err)
    if m:
        msg = m.group(2)
        cls = ubsan_class(msg)
        fn = first_lib_frame(err[m.start():])
        return "ubsan:%s@%s" % (cls, fn or os.path.basename(m.group(1)))
    if rc < 0:
        sig = -rc
        name = {signal.SIGSEGV: "SIGSEGV", signal.SIGABRT: "SIGABRT", signal.SIGBUS: "SIGBUS", signal.SIGFPE: "SIGFPE", signal.SIGILL: "SIGILL", signal.SIGKILL: "SIGKILL"}.get(sig, "SIG%d" % sig)
        if sig == signal.SIGABRT:
            dm = die_message(err)
            return "crash:SIGABRT:" + dm
        return "crash:" + name
    return "exit:%d" % rc

def ubsan_class(msg):
    for pat, c in [("shift exponent", "shift-exponent"), ("left shift of", "shift-overflow"), ("misaligned address", "misaligned"),
                   ("signed integer overflow", "signed-overflow"), ("out of bounds", "index-oob"), ("null pointer", "null"),
                   ("division by zero", "div-zero"), ("not a valid value", "invalid-value"), ("applying non-zero offset", "pointer-overflow"),
                   ("pointer index expression", "pointer-overflow"), ("outside the range of representable", "float-cast")]:
        if pat in msg:
            return c
    return re.sub(r"[^a-z]+", "-", msg.lower())[:30]

def first_lib_frame(err):
    for m in re.finditer(r"#\d+ 0x[0-9a-f]+ in ([A-Za-z0-9_]+) ([^\s:]+)", err):
        fn, path = m.group(1), m.group(2)
        if "/m4ri/" in path and "/harness/" not in path:
            return fn
    return None

def die_message(err):
    lines = [l for l in err.strip().splitlines() if l.strip() and not l.startswith("==") and "AW-" not in l]
    if not lines:
        return "nomsg"
    l = lines[-1]
    m = re.search(r": (\w+): Assertion `(.*)' failed", l)
    if m:   # glibc assert(): keep the function and the expression, not the build path and line number
        return "assert@%s:%s" % (m.group(1), re.sub(r"[^A-Za-z0-9_<>=!&|+*/-]+", "", m.group(2))[:40])
    l = re.sub(r"\d+", "N", l)
    l = re.sub(r"[^A-Za-z_: ]+", "", l).strip().replace(" ", "_")
    return l[:60] or "nomsg"

class Event:
    __slots__ = ("idx", "keyprefix", "desc", "fails", "nontrivial", "cls", "tags", "done", "stage", "worker_err")
    def __init__(self, idx, keyprefix, desc):
        self.idx, self.keyprefix, self.desc = idx, keyprefix, desc
        self.fails = []
        self.nontrivial = 0
        self.cls = "-"
        self.tags = "-"
        self.done = False

class StageResult:
    def __init__(self):
        self.events = []      # finished Events (incl. crashed ones)
        self.notes = []
        self.info = None
        self.harness_failures = []
        self.hangs = []
        self.aborted = False

def run_range(exe, margs, lo, hi, env, res, lock, timeout, label, prefix=(), requeue=None):
    """run cases lo..hi in one or more worker processes, restarting after a death"""
    cur = lo
    slow_retries = {}
    while cur < hi:
        cmd = list(prefix) + [exe] + margs + ["--from", str(cur), "--to", str(hi)]
        errf = os.path.join(os.path.dirname(exe), "stderr.%d.%d" % (os.getpid(), threading.get_ident()))
        with open(errf, "w") as ef:
            p = subprocess.Popen(cmd, stdout=subprocess.PIPE, stderr=ef, text=True, env=env, errors="replace")
        open_ev = None
        last = [time.time()]
        killed = [False]
        stopped = [False]
        def watchdog():
            while p.poll() is None:
                if res.aborted:
                    stopped[0] = True
                    try:
                        p.kill()
                    except OSError:
                        pass
                    return
                if time.time() - last[0] > timeout:
                    killed[0] = True
                    try:
                        p.kill()
                    except OSError:
                        pass
                    return
                time.sleep(0.5)
        wd = threading.Thread(target=watchdog, daemon=True)
        wd.start()
        local = []
        for line in p.stdout:
            last[0] = time.time()
            parts = line.rstrip("\n").split("\t")
            t = parts[0]
            if t == "B" and len(parts) >= 3:
                open_ev = Event(int(parts[1]), parts[2], parts[3] if len(parts) > 3 else "")
            elif t == "F" and len(parts) >= 4:
                if open_ev is None or open_ev.idx != int(parts[1]):
                    open_ev = Event(int(parts[1]), "?", "")
                open_ev.fails.append((parts[2], parts[3]))
            elif t == "E" and len(parts) >= 6:
                if open_ev is None or open_ev.idx != int(parts[1]):
                    open_ev = Event(int(parts[1]), "?", "")
                open_ev.nontrivial = int(parts[3])
                open_ev.cls = parts[4]
                open_ev.tags = parts[5]
                open_ev.done = True
                local.append(open_ev)
                cur = open_ev.idx + 1
                open_ev = None
            elif t == "N":
                if len(parts) > 1 and parts[1] != "done":
                    with lock:
                        res.notes.append(parts[1])
                        if parts[1].startswith("HARNESS-RACE"):
                            res.harness_failures.append("%s: %s" % (label, parts[1]))
            elif t == "I":
                with lock:
                    res.info = parts[1] if len(parts) > 1 else ""
        p.wait()
        rc = p.returncode
        err = ""
        try:
            err = open(errf, errors="replace").read()
            os.unlink(errf)
        except OSError:
            pass
        with lock:
            res.events.extend(local)
        if stopped[0]:
            if requeue is not None and cur < hi:
                requeue.put((cur, hi))
            return
        if rc == 0 and not killed[0]:
            if open_ev is not None:
                with lock:
                    res.harness_failures.append("%s: worker exited 0 with case %d open" % (label, open_ev.idx))
            return
        if rc == 2 and "HARNESS-FAILURE" in err:
            with lock:
                res.harness_failures.append("%s: %s" % (label, err.strip()[-500:]))
            return
        # died
        if open_ev is None and killed[0] and slow_retries.get(cur, 0) < 2:
            # the watchdog fired while no case was open: the (deterministic) generator / model of case `cur` was slower than the
            # per-case limit, which happens for the largest thorough shapes on a loaded machine.  Not a verdict about the library:
            # try the same case again with a longer limit before calling it a harness failure.
            slow_retries[cur] = slow_retries.get(cur, 0) + 1
            timeout = timeout * 3
            continue
        if open_ev is None:
            # died outside a case (generator / cleanup): harness failure unless a sanitizer report names the library
            kind = classify_death(rc, err)
            if (kind.startswith("asan:") or kind.startswith("ubsan:") or kind.startswith("msan:") or kind.startswith("crash:SIGSEGV@")) and first_lib_frame(err):
                # e.g. the load-time constructor m4ri_init, m4ri_fini, or cache clean-up between cases
                ev = Event(cur, "outside-case|-|-", "library code running between cases (constructor / destructor / cache clean-up)")
                ev.fails.append(("outside-case|-|-|" + kind, "worker died outside a case: %s :: %s" % (kind, err.strip()[-1200:].replace("\n", " / "))))
                ev.done = True
                with lock:
                    res.events.append(ev)
                    res.outside_deaths = getattr(res, "outside_deaths", 0) + 1
                    if res.outside_deaths >= 3:
                        res.aborted = True   # every worker dies the same way (e.g. in the constructor): no point in restarting 10^4 times
                if res.aborted:
                    return
                cur += 1
                continue
            with lock:
                res.harness_failures.append("%s: worker died outside a case near idx %d: %s\n%s" % (label, cur, kind, err[-1500:]))
            cur += 1
            continue
        if killed[0]:
            with lock:
                res.hangs.append((open_ev, cmd))
                if len(res.hangs) >= 2:
                    res.aborted = True   # cases keep hanging: stop the stage, the verdict comes from re-running them alone
            open_ev.worker_err = "watchdog"
            if res.aborted:
                if requeue is not None and open_ev.idx + 1 < hi:
                    requeue.put((open_ev.idx + 1, hi))
                return
        else:
            kind = classify_death(rc, err)
            if kind.split(":")[0] in ("asan", "msan") and "@" not in kind and not first_lib_frame(err):
                # a sanitizer report in which no frame (access, allocation or origin stack) belongs to the library: the harness's own defect
                with lock:
                    res.harness_failures.append("%s: sanitizer report without any library frame in case %d: %s\n%s" % (label, open_ev.idx, kind, err[-1500:]))
                cur = open_ev.idx + 1
                continue
            open_ev.fails.append((open_ev.keyprefix + "|" + kind, "worker died: %s :: %s" % (kind, err.strip()[-1200:].replace("\n", " / "))))
            open_ev.done = True
            with lock:
                res.events.append(open_ev)
        cur = open_ev.idx + 1

def run_stage(cfgname, margs, ncases, seed, timeout=120, nworkers=None, extra_env=None, first=0, prefix=()):
    exe = build(cfgname)
    env = dict(os.environ)
    env.update(SAN_ENV)
    if extra_env:
        env.update(extra_env)
    res = StageResult()
    lock = threading.Lock()
    nworkers = nworkers or NCPU
    margs = list(margs) + ["--seed", str(seed)]
    # dynamic chunks
    chunk = max(1, min(200, ncases // (nworkers * 6) or 1))
    q = queue.Queue()
    for lo in range(first, first + ncases, chunk):
        q.put((lo, min(first + ncases, lo + chunk)))
    def worker(tmo):
        while True:
            # a stage in which cases keep hanging is stopped: the verdict comes from the re-runs below
            if res.aborted:
                return
            try:
                lo, hi = q.get_nowait()
            except queue.Empty:
                return
            run_range(exe, margs, lo, hi, env, res, lock, tmo, cfgname, prefix, requeue=q)
    tmo = timeout
    was_aborted = False
    for attempt in range(2):
        ths = [threading.Thread(target=worker, args=(tmo,)) for _ in range(min(nworkers, max(1, q.qsize())))]
        [t.start() for t in ths]
        [t.join() for t in ths]
        # re-run (at most 2) hung cases once, alone, with a generous timeout; a second timeout is a hang verdict
        hung = list(res.hangs[:2])
        for ev, cmd in res.hangs[2:]:
            q.put((ev.idx, ev.idx + 1))
        was_aborted = res.aborted
        res.aborted = False
        res.hangs = []
        confirmed = False
        for ev, cmd in hung:
            r2 = StageResult()
            run_range(exe, margs, ev.idx, ev.idx + 1, env, r2, threading.Lock(), tmo * 2, cfgname + ":rerun", prefix)
            if r2.hangs:
                ev.fails.append((ev.keyprefix + "|hang", "case did not finish within %ds, and not within %ds when re-run alone" % (tmo, tmo * 2)))
                ev.done = True
                res.events.append(ev)
                confirmed = True
            else:
                res.events.extend(r2.events)
                res.harness_failures.extend(r2.harness_failures)
        if confirmed or not was_aborted or q.empty():
            break
        # the timeouts did not reproduce (loaded machine?): resume the remaining cases with a longer watchdog
        tmo = tmo * 3
    res.aborted = was_aborted and not q.empty()
    if res.aborted and not any(k.endswith("|hang") for e in res.events for k, _ in e.fails):
        res.harness_failures.append("%s: stage stopped after repeated watchdog timeouts that did not reproduce alone (inconclusive)" % cfgname)
    res.hangs = []
    return res

# ----------------------------------------------------------------------------- known findings
def load_known():
    known, fixed = {}, []
    p = os.path.join(ROOT, "known_findings.txt")
    if not os.path.exists(p):
        return known, fixed
    for line in open(p):
        line = line.strip()
        if not line or line.startswith("#"):
            continue
        m = re.match(r"known: property=(\S+) key=(\S+) :: (.*)", line)
        if m:
            known[(m.group(1), m.group(2))] = m.group(3)
            continue
        if line.startswith("fixed:"):
            fixed.append(line)
    return known, fixed

# ----------------------------------------------------------------------------- property definitions
from props import PROPS  # noqa: E402

_scratch = []
def scratch_dir():
    """scratch directory for files the monitors write (never under /tmp: registered commands must not depend on it)"""
    if not _scratch:
        d = os.path.join(BUILD, "scratch.%d" % os.getpid())
        os.makedirs(d, exist_ok=True)
        _scratch.append(d)
        import atexit
        atexit.register(lambda: shutil.rmtree(d, ignore_errors=True))
    return _scratch[0]

def write_replay(pid, stage, ev, key, msg, seed):
    d = os.path.join(REPLAYS, pid)
    os.makedirs(d, exist_ok=True)
    name = hashlib.sha1(key.encode()).hexdigest()[:12] + ".json"
    p = os.path.join(d, name)
    json.dump({"property": pid, "key": key, "message": msg, "build": stage["cfg"], "mon_args": stage["args"], "seed": seed,
               "idx": ev.idx, "description": ev.desc, "env": stage.get("env", {})}, open(p, "w"), indent=1)
    return p

def check(pid, tier, seed):
    t0 = time.time()
    prop = PROPS[pid]
    shutil.rmtree(os.path.join(REPLAYS, pid), ignore_errors=True)
    known, _ = load_known()
    evaluations = 0
    classes = set()
    tags = {}
    samples = []
    violations = {}     # key -> (msg, replay)
    known_hit = {}
    harness_fail = []
    builds = []
    stage_summ = []
    digests = []
    sub_evals = 0
    custom = getattr(sys.modules["props"], "CUSTOM", {}).get(pid)
    stages = prop["stages"](tier) if callable(prop["stages"]) else prop["stages"]
    build_many(sorted({s["cfg"] for s in stages}))
    for si, st in enumerate(stages):
        n = st[tier][0] if isinstance(st[tier], (tuple, list)) else st[tier]
        if n <= 0 and not st.get("forge"):
            continue
        if tier == "thorough" and "--arg" not in st["args"] and not st.get("forge") and not st.get("valgrind") and st["monitor"] in ("func", "views", "pure", "digest"):
            n *= THOROUGH_SCALE   # random-case stages only; enumerated stages (grid / colpairs / exh) have their own size
        margs = [st["monitor"]] + [scratch_dir() if x == "@TMP@" else x for x in st["args"]] + ["--tier", tier]
        if isinstance(st[tier], (tuple, list)) and len(st[tier]) > 1 and st[tier][1]:
            margs += ["--maxdim", str(st[tier][1])]
        if st.get("forge"):
            fd = os.path.join(scratch_dir(), "forge_%s_%d_%d" % (pid, seed, si))
            nv, nj, nm = st["forge"][tier]
            r = run([sys.executable, os.path.join(HARNESS, "forge.py"), fd, str(seed), str(nv), str(nj), str(nm)])
            if r.returncode != 0:
                sys.stderr.write("HARNESS-FAILURE: forge.py failed: %s\n" % r.stdout[-800:])
                return 2
            n = int(r.stdout.strip().splitlines()[-1])
            margs += ["--arg", fd]
        ts = time.time()
        if st.get("runner"):
            res = st["runner"](st, tier, seed, n)
        else:
            prefix = VALGRIND if st.get("valgrind") else ()
            res = run_stage(st["cfg"], margs, n, seed, timeout=st.get("timeout", 45 if tier == "quick" else 240), extra_env=st.get("env"), nworkers=st.get("workers"), prefix=prefix)
        st = dict(st)
        st["args"] = margs
        builds.append(st["cfg"])
        nfail_stage = 0
        for ev in res.events:
            evaluations += 1
            tagl = [] if ev.tags == "-" else ev.tags.split(",")
            for t in tagl:
                if t.startswith("digest="):
                    continue
                if t.startswith("evals="):
                    sub_evals += int(t[6:])
                    continue
                tags[t] = tags.get(t, 0) + 1
            if ev.nontrivial and not ev.fails:
                classes.add(st["cfg"] + "/" + ev.cls)
            if len(samples) < 4 and ev.nontrivial and (ev.idx % 7 == si % 7):
                samples.append({"build": st["cfg"], "case": ev.idx, "op": ev.keyprefix, "input": ev.desc})
            for key, msg in ev.fails:
                nfail_stage += 1
                full = key
                if (pid, full) in known:
                    known_hit.setdefault(full, [known[(pid, full)], 0])
                    known_hit[full][1] += 1
                elif full not in violations:
                    violations[full] = (msg, write_replay(pid, st, ev, full, msg, seed), st["cfg"])
        if not samples and res.events:
            ev = res.events[0]
            samples.append({"build": st["cfg"], "case": ev.idx, "op": ev.keyprefix, "input": ev.desc})
        harness_fail.extend(res.harness_failures)
        if any(k.endswith("|hang") for k in violations):
            stage_summ.append({"build": st["cfg"], "monitor": st["monitor"], "cases": len(res.events), "note": "confirmed hang: remaining stages skipped", "wall_s": round(time.time() - ts, 1)})
            break
        post = st.get("post")
        if post:
            post(st, res, violations, known, known_hit, pid, seed, tags, classes)
        if prop.get("cross_digest"):
            dg = {}
            for ev in res.events:
                m = re.search(r"digest=([0-9a-f]+)", ev.tags)
                if m and not ev.fails:
                    dg[ev.idx] = (m.group(1), ev.keyprefix, ev.desc, ev.cls)
            digests.append((st, dg))
        stage_summ.append({"build": st["cfg"], "monitor": st["monitor"], "cases": len(res.events), "failures": nfail_stage,
                           "wall_s": round(time.time() - ts, 1), "info": res.info})
    if prop.get("cross_digest") and digests:
        # same seeded case under every configuration: canonical digests must agree
        ref_st, ref = digests[0]
        allidx = set(ref)
        for st2, d2 in digests[1:]:
            allidx &= set(d2)
        compared = 0
        classes = set()
        for idx in sorted(allidx):
            vals = {}
            regimes = set()
            for st2, d2 in digests:
                vals.setdefault(d2[idx][0], []).append(st2["cfg"])
                regimes.add(d2[idx][1])
            compared += 1
            if len(regimes) > 1:   # non-trivial: the same input is in different regimes in at least two builds
                classes.add(ref[idx][3] + "/" + "+".join(sorted(regimes)))
            if len(vals) > 1:
                groups = sorted(vals.values(), key=len)
                key = "%s|digest-mismatch:%s/%s" % (ref[idx][1].split("|")[0], groups[0][0], groups[-1][0])
                msg = "canonical output of case %d differs between configurations %s :: %s" % (idx, dict((k, v) for k, v in vals.items()), ref[idx][2])
                class _E: pass
                e = _E(); e.idx = idx; e.desc = ref[idx][2]
                if (pid, key) in known:
                    known_hit.setdefault(key, [known[(pid, key)], 0]); known_hit[key][1] += 1
                elif key not in violations:
                    violations[key] = (msg, write_replay(pid, ref_st, e, key, msg, seed), "+".join(groups[0]))
        tags["cases_compared_across_builds"] = compared
        tags["builds_compared"] = len(digests)
    # required regime tags
    missing = [t for t in prop.get("require_tags", {}).get(tier, []) if not any(k == t or k.startswith(t) for k in tags)]
    wall = time.time() - t0
    ev = {
        "property_id": pid, "tier": tier, "seed": seed, "level": prop["level"],
        "coverage": {
            "evaluations": evaluations + sub_evals,
            "cases": evaluations,
            "distinct_nontrivial": len(classes),
            "rule": prop["rule"],
            "samples": samples[:6],
            "regime_tags_observed": dict(sorted(tags.items(), key=lambda kv: -kv[1])[:60]),
            "stages": stage_summ,
            "builds": sorted(set(builds)),
            "known_findings_hit": {k: v[1] for k, v in known_hit.items()},
            "required_tags_missing": missing,
        },
        "assumptions": prop.get("assumptions", []),
        "wall_s": round(wall, 1),
        "violations": len(violations),
    }
    if prop.get("exhaustive"):
        ev["coverage"]["exhaustive"] = True
    evdir = os.environ.get("VERIF_EVIDENCE_DIR") or os.path.join(ROOT, "evidence")
    os.makedirs(evdir, exist_ok=True)
    json.dump(ev, open(os.path.join(evdir, pid + ".json"), "w"), indent=1)
    for k, (desc, cnt) in sorted(known_hit.items()):
        print("KNOWN-FINDING: property=%s %s (%d cases) :: %s" % (pid, k, cnt, desc))
    for k, (msg, rp, cfgn) in sorted(violations.items()):
        print("VIOLATION property=%s replay=%s" % (pid, rp))
        print("  key=%s build=%s\n  %s" % (k, cfgn, msg[:600]))
    print("%s %s: %d cases, %d distinct non-trivial classes, %d violation key(s), %d known, %.0fs" % (pid, tier, evaluations, len(classes), len(violations), len(known_hit), wall))
    if violations:
        return 1
    if harness_fail:
        sys.stderr.write("HARNESS-FAILURE (inconclusive):\n" + "\n".join(harness_fail[:5]) + "\n")
        return 2
    if evaluations == 0 or len(classes) < 2:
        sys.stderr.write("INCONCLUSIVE: monitor observed too little (%d cases, %d classes)\n" % (evaluations, len(classes)))
        return 2
    if missing:
        sys.stderr.write("INCONCLUSIVE: required regimes never observed: %s\n" % missing)
        return 2
    return 0

def replay(path):
    r = json.load(open(path))
    exe = build(r["build"])
    env = dict(os.environ)
    env.update(SAN_ENV)
    env.update(r.get("env") or {})
    cmd = [exe] + [a for a in r["mon_args"]] + ["--seed", str(r["seed"]), "--from", str(r["idx"]), "--to", str(r["idx"] + 1)]
    print(" ".join(cmd))
    p = subprocess.run(cmd, env=env, stdout=subprocess.PIPE, text=True, errors="replace")
    sys.stdout.write(p.stdout)
    reproduced = p.returncode != 0 or any(l.startswith("F\t") for l in p.stdout.splitlines())
    print("replay: %s" % ("violation reproduced" if reproduced else "no violation on this tree"))
    return 1 if reproduced else 0

def write_manifest():
    import props
    checks = []
    for pid in sorted(PROPS):
        p = PROPS[pid]
        if p.get("unclaimed"):
            continue
        checks.append({
            "property_id": pid,
            "quick_cmd": "python3 verif.py check %s --tier quick" % pid,
            "thorough_cmd": "python3 verif.py check %s --tier thorough" % pid,
            "evidence_file": "/verif/evidence/%s.json" % pid,
            "replay_cmd_template": "python3 verif.py replay {path}",
            "engine": "mon",
            "level_claimed": {"category": p["level"], "text": p.get("level_text", p["rule"]), "design_ref": "DESIGN.md section 4, " + pid},
            "level_note": "; ".join(p.get("assumptions", [])) or "trusted base: harness reference model and judge",
            "technique": p.get("technique", "runtime monitoring: sanitizer-instrumented executions of the real library checked by an independent reference-model oracle"),
        })
    na = list(props.NOT_APPLICABLE)
    allp = [json.loads(l)["id"] for l in open(os.path.join(ROOT, "properties.jsonl")) if l.strip()]
    for pid in allp:
        if pid not in PROPS and not any(x["property_id"] == pid for x in na):
            na.append({"property_id": pid, "reason": "monitor for this property is not built yet in this revision (not claimed)"})
    man = {
        "version": 1,
        "setup_cmd": "python3 verif.py setup",
        "hooks": {
            "guard": "M4RI_VERIF",
            "enable": "verif.py copies /repo/m4ri/*.c,*.h into build/<cfg>-<hash>/m4ri, writes its own m4ri_config.h from m4ri_config.h.in and compiles with -DM4RI_VERIF (the tiny-caches-asan build of C14 adds -DM4RI_VERIF_MMC_NBLOCKS=2 -DM4RI_VERIF_MZD_T_CACHE_MAX=3)",
            "baseline_off_cmd": "make -C /repo -j16 && make -C /repo check -j8",
            "source_commits": props.HOOK_COMMITS,
            "add_only": True,
        },
        "engines": [{"name": "mon", "path": "/verif/harness", "serves_properties": sorted(PROPS),
                     "kind_free_text": "C monitor engine statically linked against one build configuration of m4ri (ASan+UBSan / TSan / Archer / memcheck), driven and judged by verif.py"}],
        "checks": checks,
        "not_applicable": na,
        "notes": "Runtime monitoring only. Exit 0 held on everything observed; 1 violation not in known_findings.txt; 2 harness failure / inconclusive. VERIF_SEED selects the PRNG stream.",
    }
    json.dump(man, open(os.path.join(ROOT, "MANIFEST.json"), "w"), indent=1)
    print("MANIFEST.json written: %d checks" % len(checks))
    return 0

def main():
    if len(sys.argv) < 2:
        print(__doc__)
        return 2
    cmd = sys.argv[1]
    if cmd == "setup":
        names = set()
        for pid, p in PROPS.items():
            stages = p["stages"]("quick") if callable(p["stages"]) else p["stages"]
            for s in stages:
                names.add(s["cfg"])
        for n in sorted(names):
            build(n, verbose=True)
        return 0
    if cmd == "build":
        print(build(sys.argv[2], verbose=True))
        return 0
    if cmd == "check":
        pid = sys.argv[2]
        tier = os.environ.get("VERIF_TIER", "quick")
        if "--tier" in sys.argv:
            tier = sys.argv[sys.argv.index("--tier") + 1]
        seed = int(os.environ.get("VERIF_SEED", "1"))
        return check(pid, tier, seed)
    if cmd == "replay":
        return replay(sys.argv[2])
    if cmd == "manifest":
        return write_manifest()
    print(__doc__)
    return 2

if __name__ == "__main__":
    sys.exit(main())
